//! Deterministic cooperative scheduler for the REAL worker threads of ddo's
//! ParallelSolver.  Exactly one registered worker runs at a time (it holds the
//! baton); at every yield point (before a mutex acquisition, at a condvar
//! wait, at worker exit, optionally before every concurrent-map call) the
//! next thread is picked with `symx_int::choice`, i.e. the scheduling decision
//! is a recorded branch that the explorer enumerates like a data branch.
//! A pre-emption bound keeps the schedule tree finite.
//!
//! Detected: deadlock (no enabled thread while one is blocked / parked),
//! step-bound overrun (livelock / non-termination), worker panics (the guard's
//! Drop marks the worker exited, the panic propagates through thread::scope).
use std::cell::Cell;
use std::collections::HashMap;
use std::sync::{Condvar, Mutex, MutexGuard};
use std::time::Duration;

#[derive(Clone, Copy, PartialEq, Debug)]
enum St {
    Runnable,
    BlockedMutex(usize),
    Parked { cv: usize, mutex: usize },
    Exited,
}

struct Sched {
    active: bool,
    expected: usize,
    started: bool,
    states: HashMap<usize, St>,
    current: Option<usize>,
    owners: HashMap<usize, usize>, // mutex address -> owning worker
    steps: u64,
    max_steps: u64,
    preemptions: u32,
    max_preempt: u32,
    abort: Option<String>,
    map_yield: bool,
    switches: u64,
    parks: u64,
}

static SCHED: Mutex<Option<Sched>> = Mutex::new(None);
static CV: Condvar = Condvar::new();

thread_local! {
    static ME: Cell<Option<usize>> = const { Cell::new(None) };
}

fn lock() -> MutexGuard<'static, Option<Sched>> {
    match SCHED.lock() {
        Ok(g) => g,
        Err(p) => p.into_inner(),
    }
}

pub fn me() -> Option<usize> {
    ME.with(|m| m.get())
}

/// harness: switch scheduling on for the next `maximize()`
pub fn begin(expected_workers: usize, max_preempt: u32, max_steps: u64, map_yield: bool) {
    let mut g = lock();
    *g = Some(Sched { active: expected_workers > 0, expected: expected_workers, started: false, states: HashMap::new(), current: None, owners: HashMap::new(), steps: 0, max_steps, preemptions: 0, max_preempt, abort: None, map_yield, switches: 0, parks: 0 });
}
#[derive(Debug, Clone, Default)]
pub struct Summary {
    pub steps: u64,
    pub switches: u64,
    pub preemptions: u32,
    pub parks: u64,
    pub abort: Option<String>,
}
pub fn end() -> Summary {
    let mut g = lock();
    let s = g.take();
    match s {
        Some(s) => Summary { steps: s.steps, switches: s.switches, preemptions: s.preemptions, parks: s.parks, abort: s.abort },
        None => Summary::default(),
    }
}

pub struct WorkerGuard {
    id: usize,
    on: bool,
}

/// first statement of every worker closure (inserted by rewrite rule 5)
pub fn worker_enter(id: usize) -> WorkerGuard {
    let mut g = lock();
    let on = g.as_ref().map(|s| s.active).unwrap_or(false);
    if !on {
        return WorkerGuard { id, on: false };
    }
    ME.with(|m| m.set(Some(id)));
    {
        let s = g.as_mut().unwrap();
        s.states.insert(id, St::Runnable);
        if s.states.len() == s.expected && !s.started {
            // everyone is here: the first scheduling decision
            s.started = true;
            let mut en: Vec<usize> = s.states.keys().copied().collect();
            en.sort();
            // workers are symmetric (same code, the id only indexes a scratch slot): start with the lowest id
            s.current = Some(en[0]);
            CV.notify_all();
        }
    }
    wait_for_baton(g, id);
    WorkerGuard { id, on: true }
}

fn abort_all(g: &mut MutexGuard<'static, Option<Sched>>, why: String) {
    if let Some(s) = g.as_mut() {
        if s.abort.is_none() {
            s.abort = Some(why);
        }
    }
    CV.notify_all();
}

fn wait_for_baton(mut g: MutexGuard<'static, Option<Sched>>, id: usize) {
    let mut waited = 0u32;
    loop {
        match g.as_ref() {
            None => return,
            Some(s) => {
                if let Some(why) = s.abort.clone() {
                    drop(g);
                    if std::thread::panicking() {
                        return;
                    }
                    panic!("{}", why);
                }
                if s.current == Some(id) {
                    return;
                }
            }
        }
        let (g2, to) = match CV.wait_timeout(g, Duration::from_secs(5)) {
            Ok(x) => x,
            Err(p) => p.into_inner(),
        };
        g = g2;
        if to.timed_out() {
            waited += 1;
            if waited >= 12 {
                abort_all(&mut g, "SYMX-INTERNAL: scheduler stuck (no baton for 60 s)".to_string());
            }
        }
    }
}

/// hand the baton to `next` and wait until it comes back
fn switch_to(mut g: MutexGuard<'static, Option<Sched>>, me: usize, next: usize) {
    {
        let s = g.as_mut().unwrap();
        s.current = Some(next);
        s.switches += 1;
    }
    CV.notify_all();
    wait_for_baton(g, me);
}

fn enabled_others(s: &Sched, me: usize) -> Vec<usize> {
    let mut v: Vec<usize> = s.states.iter().filter(|(t, st)| **t != me && **st == St::Runnable).map(|(t, _)| *t).collect();
    v.sort();
    v
}

fn step(g: &mut MutexGuard<'static, Option<Sched>>) -> bool {
    let s = g.as_mut().unwrap();
    s.steps += 1;
    if s.steps > s.max_steps {
        let m = format!("SYMX-LABEL[C04:step-bound] more than {} scheduler steps: the parallel search does not terminate", s.max_steps);
        abort_all(g, m);
        return false;
    }
    true
}

/// voluntary yield: the running worker may be pre-empted here
pub fn yield_point() {
    let Some(id) = me() else { return };
    let mut g = lock();
    if g.as_ref().map(|s| !s.active || !s.started).unwrap_or(true) {
        return;
    }
    if !step(&mut g) {
        wait_for_baton(g, id);
        return;
    }
    let s = g.as_ref().unwrap();
    let others = enabled_others(s, id);
    if others.is_empty() || s.preemptions >= s.max_preempt {
        return;
    }
    drop(g);
    let k = symx_int::choice(others.len() + 1, "s");
    if k == 0 {
        return;
    }
    let mut g = lock();
    if let Some(s) = g.as_mut() {
        s.preemptions += 1;
    } else {
        return;
    }
    switch_to(g, id, others[k - 1]);
}
pub fn map_yield_point() {
    if me().is_none() {
        return;
    }
    let on = lock().as_ref().map(|s| s.map_yield).unwrap_or(false);
    if on {
        yield_point();
    }
}

/// the running worker cannot continue: pick another one (no pre-emption cost)
fn forced_switch(mut g: MutexGuard<'static, Option<Sched>>, id: usize, exiting: bool) {
    if !step(&mut g) {
        if !exiting {
            wait_for_baton(g, id);
        }
        return;
    }
    let s = g.as_mut().unwrap();
    let others = enabled_others(s, id);
    if others.is_empty() {
        let stuck: Vec<String> = s.states.iter().filter(|(_, st)| !matches!(st, St::Exited | St::Runnable)).map(|(t, st)| format!("worker {} {:?}", t, st)).collect();
        if stuck.is_empty() {
            // everybody has exited
            s.current = None;
            CV.notify_all();
            return;
        }
        let m = format!("SYMX-LABEL[C04:deadlock] no runnable worker while {} (lost wake-up / deadlock)", stuck.join(", "));
        abort_all(&mut g, m);
        if !exiting {
            wait_for_baton(g, id);
        }
        return;
    }
    drop(g);
    let k = symx_int::choice(others.len(), "s");
    let mut g = lock();
    if g.is_none() {
        return;
    }
    if exiting {
        let s = g.as_mut().unwrap();
        s.current = Some(others[k]);
        s.switches += 1;
        CV.notify_all();
    } else {
        switch_to(g, id, others[k]);
    }
}

// ---------------------------------------------------------------- mutex / condvar protocol
/// logical acquisition of the mutex at `addr` (call before taking the real lock)
pub fn mutex_lock(addr: usize) {
    let Some(id) = me() else { return };
    yield_point();
    loop {
        let mut g = lock();
        let Some(s) = g.as_mut() else { return };
        if !s.active {
            return;
        }
        match s.owners.get(&addr) {
            None => {
                s.owners.insert(addr, id);
                return;
            }
            Some(_) => {
                s.states.insert(id, St::BlockedMutex(addr));
                forced_switch(g, id, false);
                // when we are back we have been made Runnable by the unlock
            }
        }
    }
}
pub fn mutex_unlock(addr: usize) {
    let Some(id) = me() else { return };
    let mut g = lock();
    let Some(s) = g.as_mut() else { return };
    if s.owners.get(&addr) == Some(&id) {
        s.owners.remove(&addr);
    }
    for (_, st) in s.states.iter_mut() {
        if *st == St::BlockedMutex(addr) {
            *st = St::Runnable;
        }
    }
}
/// condvar wait: releases `mutex`, parks until notified, re-acquires
pub fn condvar_wait(cv: usize, mutex: usize) {
    let Some(id) = me() else { return };
    {
        let mut g = lock();
        let Some(s) = g.as_mut() else { return };
        if !s.active {
            return;
        }
        s.owners.remove(&mutex);
        for (_, st) in s.states.iter_mut() {
            if *st == St::BlockedMutex(mutex) {
                *st = St::Runnable;
            }
        }
        s.states.insert(id, St::Parked { cv, mutex });
        s.parks += 1;
        forced_switch(g, id, false);
    }
    // notified (state was set to BlockedMutex(mutex) or Runnable): re-acquire
    loop {
        let mut g = lock();
        let Some(s) = g.as_mut() else { return };
        match s.owners.get(&mutex) {
            None => {
                s.owners.insert(mutex, id);
                s.states.insert(id, St::Runnable);
                return;
            }
            Some(_) => {
                s.states.insert(id, St::BlockedMutex(mutex));
                forced_switch(g, id, false);
            }
        }
    }
}
pub fn condvar_notify_all(cv: usize) {
    if me().is_none() {
        return;
    }
    let mut g = lock();
    let Some(s) = g.as_mut() else { return };
    let owners = s.owners.clone();
    for (_, st) in s.states.iter_mut() {
        if let St::Parked { cv: c, mutex } = *st {
            if c == cv {
                // a woken thread still needs its mutex: enabled only once that is free
                *st = if owners.contains_key(&mutex) { St::BlockedMutex(mutex) } else { St::Runnable };
            }
        }
    }
}

impl Drop for WorkerGuard {
    fn drop(&mut self) {
        if !self.on {
            return;
        }
        let id = self.id;
        ME.with(|m| m.set(None));
        let mut g = lock();
        let Some(s) = g.as_mut() else { return };
        s.states.insert(id, St::Exited);
        // release whatever the worker still owns (unwinding)
        let owned: Vec<usize> = s.owners.iter().filter(|(_, o)| **o == id).map(|(a, _)| *a).collect();
        for a in owned {
            s.owners.remove(&a);
            for (_, st) in s.states.iter_mut() {
                if *st == St::BlockedMutex(a) {
                    *st = St::Runnable;
                }
            }
        }
        if s.abort.is_some() {
            CV.notify_all();
            return;
        }
        forced_switch(g, id, true);
    }
}
