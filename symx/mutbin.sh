#!/bin/bash
# dev helper: build the harness against a scratch copy of /repo + a patch (never touches /repo); prints the binary path
# usage: mutbin.sh <patch> [sched]
set -e
P=$1; K=${2:-symx}
rm -rf /tmp/mrepo; mkdir -p /tmp/mrepo/ddo; cp -r /repo/ddo/src /tmp/mrepo/ddo/; cp /repo/ddo/Cargo.toml /tmp/mrepo/ddo/; cp /repo/Cargo.lock /tmp/mrepo/
(cd /tmp/mrepo && patch -p1 -s < $P)
cd /verif && VERIF_REPO=/tmp/mrepo python3 -c "
import sys; sys.path.insert(0,'/verif')
from vlib import build
print(build.ensure_symx(sched=('$K'=='sched'))[0])" | tail -1
