#!/usr/bin/env python3
"""dev helper: summarise harness JSON lines from stdin"""
import sys, json, collections
tot=collections.Counter(); viol=collections.Counter(); notes=collections.Counter(); inc=0; n=0; labels=collections.Counter()
first={}
for line in sys.stdin:
    line=line.strip()
    if not line.startswith('{'): 
        print("?? ",line[:200]); continue
    j=json.loads(line); r=j['report']; n+=1
    for k in ('paths','queries','sat','unsat','unknown','obligations','discharged_solver','discharged_concrete','divergences','branches'): tot[k]+=r[k]
    tot['solver_secs']+=r['solver_secs']; tot['wall_secs']+=r['wall_secs']
    if not r['complete']: inc+=1
    for k,v in r['notes'].items(): notes[k]+=v
    for k,v in r['labels'].items(): labels[k]+=v
    for v in r['violations']:
        viol[v['label']]+=1
        if v['label'] not in first: first[v['label']]=(j['case'],v)
    if r['refused'] or r['solver_errors']: print('REFUSED/ERR',r['refused'],r['solver_errors'],j['case'])
print(f"subcases={n} incomplete={inc}", dict(tot))
print("notes",dict(notes))
print("labels",dict(labels))
print("violations",dict(viol))
for k,(c,v) in first.items():
    print(" FIRST",k,v['kind'],v['detail'][:300]); print("   case"," ".join(f"{a}={b}" for a,b in c.items())); print("   inputs",",".join(f"{a}:{b}" for a,b in v['inputs'].items()))
