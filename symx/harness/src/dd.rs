//! Diagram-level harness: one compilation of a (reachable, exact) sub-problem
//! on a possibly re-used diagram object; obligations of C06, C07, C08, C13(b),
//! the C12 protocol monitor (in fam.rs) and C20 (viz.rs) all hang off it.
use crate::fam::*;
use crate::viz;
use crate::Cost;
use ddo::*;
use std::sync::Arc;
use symx_int::{note, oblige, observe, Cond, CostLike};

pub trait Dd: DecisionDiagram<State = St> + Default {
    const POOLED: bool = false;
    fn viz(&self, cfg: &VizConfig) -> String;
}
impl Dd for Mdd<St, { LAST_EXACT_LAYER }> {
    fn viz(&self, cfg: &VizConfig) -> String {
        self.as_graphviz(cfg)
    }
}
impl Dd for Mdd<St, { FRONTIER }> {
    fn viz(&self, cfg: &VizConfig) -> String {
        self.as_graphviz(cfg)
    }
}
impl Dd for Pooled<St> {
    const POOLED: bool = true;
    fn viz(&self, cfg: &VizConfig) -> String {
        self.as_graphviz(cfg)
    }
}

/// real SimpleCache behind a wrapper that remembers which keys were written
pub struct RecCache {
    pub inner: SimpleCache<St>,
    pub log: std::sync::Mutex<Vec<(St, usize)>>,
}
impl RecCache {
    pub fn new(t: &Table) -> Self {
        let mut inner = SimpleCache::<St>::default();
        inner.initialize(t);
        RecCache { inner, log: std::sync::Mutex::new(vec![]) }
    }
    pub fn keys(&self) -> Vec<(St, usize)> {
        let mut v = self.log.lock().unwrap().clone();
        v.sort();
        v.dedup();
        v
    }
}
impl Cache for RecCache {
    type State = St;
    fn initialize(&mut self, _: &dyn Problem<State = St>) {}
    fn get_threshold(&self, s: &St, d: usize) -> Option<Threshold> {
        let r = self.inner.get_threshold(s, d);
        if r.is_some() {
            note("cache_hit_in_compile");
        }
        r
    }
    fn update_threshold(&self, s: Arc<St>, d: usize, v: Cost, e: bool) {
        self.log.lock().unwrap().push((*s, d));
        self.inner.update_threshold(s, d, v, e)
    }
    fn clear_layer(&self, d: usize) {
        self.inner.clear_layer(d)
    }
    fn clear(&self) {
        self.inner.clear()
    }
}

/// C09 inductive invariant of the threshold cache (DESIGN.md 5/C09): for every recorded threshold
/// (s, d, theta) and every arc s --a--> w of the exact system, an arrival at s with value <= theta
/// is harmless: its continuation through w is (2) itself below a recorded threshold of (w, d+1), or
/// (3) dominated by an open sub-problem (w, d+1) with at least that value, or (4) cannot beat the
/// incumbent whatever the completion.
pub fn check_thresholds(t: &Table, cache: &RecCache, open: &[SubProblem<St>], lb_after: Cost) {
    for (s, d) in cache.keys() {
        let th = match cache.inner.get_threshold(&s, d) {
            Some(x) => x,
            None => continue,
        };
        note("threshold_checked");
        // (0) the state itself is still open with at least that value: an arrival <= theta is dominated by it
        let mut self_open = Cond::FALSE;
        for o in open.iter().filter(|o| *o.state == s && o.depth == d) {
            self_open = self_open.or(th.value.le_c(o.value));
        }
        if d >= t.sh.n {
            oblige("C09:threshold-sound-terminal", th.value.le_c(lb_after));
            continue;
        }
        for a in t.domain(d, s.m) {
            let wm = t.trans(d, s.m, a);
            if wm == 0 {
                continue;
            }
            let ws = t.st(d + 1, wm);
            let arrival = th.value.sat_plus(t.arc_cost(d, s.m, a, wm));
            let mut ok = self_open;
            if let Some(tw) = cache.inner.get_threshold(&ws, d + 1) {
                ok = ok.or(arrival.le_c(tw.value));
            }
            for o in open.iter().filter(|o| *o.state == ws && o.depth == d + 1) {
                ok = ok.or(arrival.le_c(o.value));
            }
            match max_of(enumerate(t, d + 1, wm).iter().map(|q| q.value)) {
                None => {} // no completion at all: nothing can be lost
                Some(hstar) => {
                    ok = ok.or(arrival.sat_plus(hstar).le_c(lb_after));
                    if std::env::var("SYMX_TRACE").is_ok() {
                        eprintln!("  key ({:?},{}) theta={:?}/{} arc d={} -> {:?} arrival={:?} theta_w={:?} open={:?} hstar={:?} lb={:?} ok={}", s, d, th.value, th.explored, a, ws, arrival, cache.inner.get_threshold(&ws, d + 1), open.iter().filter(|o| *o.state == ws && o.depth == d + 1).map(|o| o.value).collect::<Vec<_>>(), hstar, lb_after, ok.v);
                    }
                    oblige("C09:threshold-sound", ok);
                }
            }
        }
    }
}

#[derive(Clone, Debug)]
pub struct RootSel {
    pub layer: usize,
    pub mask: u32,
    pub prefix: Vec<(usize, usize)>, // (variable, value)
}

/// all reachable exact states with one prefix path each (BFS, concrete)
pub fn reachable_roots(t: &Table) -> Vec<RootSel> {
    let mut out = vec![RootSel { layer: 0, mask: t.sh.root, prefix: vec![] }];
    let mut frontier = vec![0usize];
    for l in 0..t.sh.n {
        let mut nextf = vec![];
        for &i in frontier.iter() {
            let cur = out[i].clone();
            for d in t.domain(l, cur.mask) {
                let dst = t.trans(l, cur.mask, d);
                if dst == 0 {
                    continue;
                }
                if out.iter().any(|r| r.layer == l + 1 && r.mask == dst) {
                    continue;
                }
                let mut p = cur.prefix.clone();
                // the neutral default decision is implicit (a long arc) only when NO member of the
                // mask is impacted; a partially impacted mask takes it as an ordinary decision
                if d < t.sh.d || t.impacted_mask(l, cur.mask) {
                    p.push((t.sh.order[l], d));
                }
                out.push(RootSel { layer: l + 1, mask: dst, prefix: p });
                nextf.push(out.len() - 1);
            }
        }
        frontier = nextf;
    }
    out
}

#[derive(Clone, Debug)]
pub struct DdCase {
    pub shape: Shape,
    pub rub: Rub,
    pub comp: CompilationType,
    pub width: usize,
    pub root: usize,       // index into reachable_roots (mod len)
    pub sym_lb: bool,      // symbolic incumbent (else none = MIN)
    pub rev_rank: bool,
    pub history: usize,    // number of prior compilations on the same object
    pub hist_seed: u64,
    pub viz_all: bool,
    pub props: Vec<String>,
    /// earlier compilations use the SYMBOLIC instance and are handled the way the solvers handle them
    /// (restricted then relaxed; the cut-set is drained only when the relaxed diagram is not exact)
    pub hist_solver_like: bool,
    pub hist_width: usize, // 0 = seeded 1..3
}

fn decs(v: &[(usize, usize)]) -> Vec<Decision> {
    v.iter().map(|(var, val)| Decision { variable: Variable(*var), value: Cost::lit(*val as i64) }).collect()
}

fn le_or_none(v: Cost, bound: Option<Cost>) -> Cond {
    match bound {
        Some(b) => v.le_c(b),
        None => Cond::FALSE,
    }
}

pub fn want(c: &DdCase, p: &str) -> bool {
    c.props.is_empty() || c.props.iter().any(|x| x == p)
}

pub fn body<D: Dd>(c: &DdCase) {
    let t = Table::new(&c.shape, c.rub.clone(), true);
    // (state-wise irrelevance: a merged state may be irrelevant for the variable of the layer it was merged in, and the
    // property does not forbid expanding it there: the clause is only meaningful for member-wise irrelevance)
    t.mon.lock().unwrap().expect_impacted = D::POOLED && t.sh.skip.is_none();
    // the protocol monitor aborts a run at the first violation: keep it out of the way of the other properties'
    // obligations (a wrong argument must then show up in THEIR values, e.g. through the bonus family)
    t.mon.lock().unwrap().check_protocol = want(c, "C12");
    let roots = reachable_roots(&t);
    let rs = roots[c.root % roots.len()].clone();
    let (l0, m0) = (rs.layer, rs.mask);
    let prefix = decs(&rs.prefix);
    let (prefix_val, _, _) = match replay(&t, &prefix, Some(l0)) {
        Ok(x) => x,
        Err(e) => panic!("SYMX-INTERNAL: harness: prefix must replay: {}", e),
    };
    let root_sp = SubProblem { state: Arc::new(t.st(l0, m0)), value: prefix_val, path: prefix.clone(), ub: Cost::cmax(), depth: l0 };
    let lb = if c.sym_lb { Cost::input("L", -10_000_000, 10_000_000) } else { Cost::cmin() };
    let completions = enumerate(&t, l0, m0);
    let opt_sub = max_of(completions.iter().map(|p| prefix_val.plus(p.value)));
    let ranking = ByMask(c.rev_rank);
    let cutoff = PollCutoff::never();
    let cache = EmptyCache::new();
    let dominance = EmptyDominanceChecker::default();
    if c.props.first().map(|p| p == "C09").unwrap_or(false) {
        return body_c09::<D>(c, &t, &root_sp, lb, l0);
    }

    let mut dd = D::default();
    // ---- history, solver-like: same symbolic instance, sibling sub-problems, drained only when not exact
    if c.history > 0 && c.hist_solver_like {
        let mut r = Rng(c.hist_seed ^ 0x51b);
        for _ in 0..c.history {
            let hr = roots[r.below(roots.len() as u64) as usize].clone();
            let hp: Vec<Decision> = decs(&hr.prefix);
            let (hv, _, _) = match replay(&t, &hp, Some(hr.layer)) {
                Ok(x) => x,
                Err(e) => panic!("SYMX-INTERNAL: harness: history prefix must replay: {}", e),
            };
            let hsp = SubProblem { state: Arc::new(t.st(hr.layer, hr.mask)), value: hv, path: hp, ub: Cost::cmax(), depth: hr.layer };
            let w = if c.hist_width > 0 { c.hist_width } else { 1 + r.below(3) as usize };
            for ct in [CompilationType::Restricted, CompilationType::Relaxed] {
                t.reset_monitor();
                let inp = CompilationInput { comp_type: ct, problem: &t, relaxation: &t, ranking: &ranking, cutoff: &cutoff, max_width: w, residual: &hsp, best_lb: Cost::cmin(), cache: &cache, dominance: &dominance };
                let res = dd.compile(&inp).expect("no cutoff was requested");
                if res.is_exact {
                    note("hist_exact_not_drained");
                    if ct == CompilationType::Relaxed {
                        // a relaxed diagram that merged but is exact by its best path: its cut-set stays in the object
                        note("hist_relaxed_exact_undrained");
                    }
                    break;
                }
                if ct == CompilationType::Relaxed {
                    dd.drain_cutset(|_| {});
                }
            }
        }
    }
    // ---- history: earlier compilations on the same object (concrete costs: no forks)
    if c.history > 0 && !c.hist_solver_like {
        let mut hs = c.shape.clone();
        for l in 0..hs.n {
            for b in 0..hs.b {
                for d in 0..hs.d {
                    hs.sym[l][b][d] = false;
                }
            }
        }
        hs.bonus = false;
        let th = Table::new(&hs, Rub::None, false);
        let hroots = reachable_roots(&th);
        let mut r = Rng(c.hist_seed ^ 0x77);
        for _ in 0..c.history {
            let hr = hroots[r.below(hroots.len() as u64) as usize].clone();
            let hp: Vec<Decision> = decs(&hr.prefix);
            let (hv, _, _) = match replay(&th, &hp, Some(hr.layer)) {
                Ok(x) => x,
                Err(e) => panic!("SYMX-INTERNAL: harness: history prefix must replay: {}", e),
            };
            let hsp = SubProblem { state: Arc::new(th.st(hr.layer, hr.mask)), value: hv, path: hp, ub: Cost::cmax(), depth: hr.layer };
            let ct = match r.below(3) {
                0 => CompilationType::Relaxed,
                1 => CompilationType::Restricted,
                _ => CompilationType::Exact,
            };
            let w = 1 + r.below(3) as usize;
            th.reset_monitor();
            let inp = CompilationInput { comp_type: ct, problem: &th, relaxation: &th, ranking: &ranking, cutoff: &cutoff, max_width: w, residual: &hsp, best_lb: Cost::cmin(), cache: &cache, dominance: &dominance };
            let _ = dd.compile(&inp);
            if r.chance(1, 2) {
                dd.drain_cutset(|_| {});
            }
        }
    }

    // ---- the compilation under test
    t.reset_monitor();
    t.mon.lock().unwrap().expect_depth = Some(l0);
    let inp = CompilationInput { comp_type: c.comp, problem: &t, relaxation: &t, ranking: &ranking, cutoff: &cutoff, max_width: c.width, residual: &root_sp, best_lb: lb, cache: &cache, dominance: &dominance };
    let res = dd.compile(&inp).expect("no cutoff was requested");
    let bv = dd.best_value();
    let bev = dd.best_exact_value();
    let exact = dd.is_exact();
    if exact != res.is_exact {
        panic!("SYMX-LABEL[C06:completion-exact] Completion.is_exact differs from is_exact()");
    }
    observe("bv", bv.map(|v| v.conc()).unwrap_or(i64::MIN));
    observe("bev", bev.map(|v| v.conc()).unwrap_or(i64::MIN));
    observe("exact", exact as i64);
    for d in dd.best_solution().unwrap_or_default() {
        observe("sol", (d.variable.id() as i64) * 100 + d.value.conc());
    }
    if exact {
        note("dd_exact");
    } else {
        note("dd_inexact");
    }
    let beats_none = |v: Cost| v.le_c(lb); // "does not beat the incumbent"

    match c.comp {
        CompilationType::Relaxed => {
            if want(c, "C06") {
                // (a) valid upper bound for every completion that beats the incumbent
                for p in completions.iter() {
                    let vp = prefix_val.plus(p.value);
                    oblige("C06:ub-valid", beats_none(vp).or(le_or_none(vp, bv)));
                }
                // (b) truthful exactness
                if exact {
                    match opt_sub {
                        Some(o) => {
                            let ok = match bev {
                                Some(b) => b.eq_c(o),
                                None => Cond::FALSE,
                            };
                            oblige("C06:exact-value", beats_none(o).or(ok));
                        }
                        None => {
                            if bev.is_some() {
                                oblige("C06:exact-value-infeasible", Cond::FALSE);
                            }
                        }
                    }
                    if let (Some(b), Some(sol)) = (bev, dd.best_exact_solution()) {
                        match replay(&t, &sol, None) {
                            Ok((v, _, _)) => oblige("C06:exact-solution-value", v.eq_c(b)),
                            Err(e) => panic!("SYMX-LABEL[C06:exact-solution-feasible] best exact solution of a diagram that claims exactness is not feasible: {}", e),
                        }
                    }
                    if bev.is_some() != dd.best_exact_solution().is_some() {
                        panic!("SYMX-LABEL[C06:exact-solution-presence] best_exact_value / best_exact_solution presence differ");
                    }
                }
            }
            if !exact && want(c, "C08") {
                let mut cut: Vec<SubProblem<St>> = vec![];
                dd.drain_cutset(|sp| cut.push(sp));
                for sp in cut.iter() {
                    observe("cut", (sp.depth as i64) * 1000 + sp.state.m as i64);
                    observe("cutv", sp.value.conc());
                    observe("cutub", sp.ub.conc());
                }
                if !cut.is_empty() {
                    note("cutset_nonempty");
                }
                let mut depths: Vec<usize> = cut.iter().map(|s| s.depth).collect();
                depths.sort();
                depths.dedup();
                if depths.len() > 1 {
                    note("cutset_mixed_depths");
                }
                for sp in cut.iter() {
                    // (i) exact
                    match replay(&t, &sp.path, Some(sp.depth)) {
                        Ok((v, _, m)) => {
                            if m != sp.state.m || (!t.sh.depth_free && sp.state.d as usize != sp.depth) {
                                panic!("SYMX-LABEL[C08:i-state] cut-set path leads to state {:#b}, sub-problem says {:?} depth {}", m, sp.state, sp.depth);
                            }
                            oblige("C08:i-value", v.eq_c(sp.value));
                        }
                        Err(e) => panic!("SYMX-LABEL[C08:i-feasible] cut-set path is not a feasible prefix of length depth: {}", e),
                    }
                    // (ii) progress
                    if sp.depth <= l0 {
                        note("root_in_cutset");
                        panic!("SYMX-LABEL[C08:ii-deeper] cut-set sub-problem at depth {} is not deeper than the root at depth {}", sp.depth, l0);
                    }
                    if sp.depth > t.sh.n {
                        panic!("SYMX-LABEL[C08:ii-deeper] cut-set sub-problem deeper than the number of variables");
                    }
                    // (iii) bound
                    for q in enumerate(&t, sp.depth, sp.state.m).iter() {
                        let v = sp.value.plus(q.value);
                        oblige("C08:iii-ub", beats_none(v).or(v.le_c(sp.ub)));
                    }
                }
                // (iv) coverage
                for p in completions.iter() {
                    let covered = cut.iter().any(|sp| sp.depth > l0 && p.states[sp.depth - l0 - 1] == sp.state.m);
                    if !covered {
                        let vp = prefix_val.plus(p.value);
                        oblige("C08:iv-cover", beats_none(vp).or(le_or_none(vp, bev)));
                    }
                }
            }
        }
        CompilationType::Restricted => {
            if want(c, "C07") {
                match (bv, opt_sub) {
                    (Some(v), Some(o)) => oblige("C07:restricted-le-opt", v.le_c(o)),
                    (Some(_), None) => oblige("C07:restricted-value-infeasible", Cond::FALSE),
                    _ => {}
                }
                match (bv, dd.best_solution()) {
                    (Some(v), Some(sol)) => match replay(&t, &sol, None) {
                        Ok((rv, _, _)) => oblige("C07:restricted-solution-value", rv.eq_c(v)),
                        Err(e) => panic!("SYMX-LABEL[C07:restricted-solution-feasible] restricted best solution infeasible: {}", e),
                    },
                    (None, None) => {}
                    _ => panic!("SYMX-LABEL[C07:restricted-presence] best_value / best_solution presence differ"),
                }
                if exact {
                    if let Some(o) = opt_sub {
                        let ok = match bv {
                            Some(v) => v.eq_c(o),
                            None => Cond::FALSE,
                        };
                        oblige("C07:restricted-exact-opt", beats_none(o).or(ok));
                    }
                }
            }
        }
        CompilationType::Exact => {
            if want(c, "C07") {
                if !exact {
                    panic!("SYMX-LABEL[C07:exact-mode-exact] exact compilation does not report is_exact");
                }
                match opt_sub {
                    Some(o) => {
                        let ok = match bv {
                            Some(v) => v.eq_c(o),
                            None => Cond::FALSE,
                        };
                        if c.rub == Rub::None {
                            oblige("C07:exact-mode-opt", ok);
                        } else {
                            oblige("C07:exact-mode-opt", beats_none(o).or(ok));
                        }
                    }
                    None => {
                        if bv.is_some() {
                            oblige("C07:exact-mode-infeasible", Cond::FALSE);
                        }
                    }
                }
                if let (Some(v), Some(sol)) = (bv, dd.best_solution()) {
                    match replay(&t, &sol, None) {
                        Ok((rv, _, _)) => oblige("C07:exact-mode-solution-value", rv.eq_c(v)),
                        Err(e) => panic!("SYMX-LABEL[C07:exact-mode-solution-feasible] {}", e),
                    }
                }
            }
        }
    }

    // ---- C13(b): width bounds the number of expanded states per layer
    if want(c, "C13") && c.shape.impacted.is_none() {
        let mon = t.mon.lock().unwrap();
        let exp = mon.expansions.clone();
        drop(mon);
        for (depth, count) in exp {
            let bounded = match c.comp {
                CompilationType::Restricted => true,
                CompilationType::Relaxed => depth != l0 && depth != l0 + 1,
                CompilationType::Exact => false,
            };
            if count > c.width {
                note("layer_wider_than_width");
            }
            if bounded && count > c.width {
                panic!("SYMX-LABEL[C13:layer-width] {} states expanded in layer {} with max_width {}", count, depth, c.width);
            }
            if bounded {
                // structural obligation: holds for every cost vector following this path
                oblige("C13:layer-width", Cond::TRUE);
            }
        }
    }

    // ---- C20: visualisation
    if want(c, "C20") {
        viz::check(&dd, &t, c.viz_all, bv.is_some());
    }
}

/// C09 at diagram level: the solver's step (restricted, then relaxed compilation with the real
/// SimpleCache, cut-set enqueued) replayed with everything visible, followed by a second step on
/// one of the cut-set nodes; the threshold invariant is checked after each step.
fn body_c09<D: Dd>(c: &DdCase, t: &Table, root_sp: &SubProblem<St>, lb: Cost, _l0: usize) {
    if c.shape.impacted.is_some() {
        return;
    }
    let cache = RecCache::new(t);
    let ranking = ByMask(c.rev_rank);
    let cutoff = PollCutoff::never();
    let dominance = EmptyDominanceChecker::default();
    let mut dd = D::default();
    let mut best_lb = lb;
    let mut open: Vec<SubProblem<St>> = vec![];
    let mut r = Rng(c.hist_seed ^ 0xc09);
    let mut node = root_sp.clone();
    for step in 0..(1 + c.history.min(4)) {
        // as SequentialSolver::process_one_node does
        t.reset_monitor();
        let inp = CompilationInput { comp_type: CompilationType::Restricted, problem: t, relaxation: t, ranking: &ranking, cutoff: &cutoff, max_width: c.width, residual: &node, best_lb, cache: &cache, dominance: &dominance };
        let res = dd.compile(&inp).expect("no cutoff");
        if let Some(v) = dd.best_exact_value() {
            best_lb = best_lb.mx(v);
        }
        if !res.is_exact {
            t.reset_monitor();
            let inp = CompilationInput { comp_type: CompilationType::Relaxed, problem: t, relaxation: t, ranking: &ranking, cutoff: &cutoff, max_width: c.width, residual: &node, best_lb, cache: &cache, dominance: &dominance };
            let res = dd.compile(&inp).expect("no cutoff");
            if let Some(v) = dd.best_exact_value() {
                best_lb = best_lb.mx(v);
            }
            if !res.is_exact {
                dd.drain_cutset(|sp| open.push(sp));
                note("cutset_nonempty");
            }
        }
        if std::env::var("SYMX_TRACE").is_ok() {
            eprintln!("step {} node=({:?},{}) value={:?} best_lb={:?} open={:?}", step, node.state, node.depth, node.value, best_lb, open.iter().map(|o| (*o.state, o.depth, o.value, o.ub)).collect::<Vec<_>>());
        }
        if c.props.iter().any(|p| p == "C09") {
            check_thresholds(t, &cache, &open, best_lb);
        }
        if c.props.iter().any(|p| p == "C20") {
            // diagrams compiled against a NON-empty cache (nodes pruned by a threshold exist)
            viz::check(&dd, t, c.viz_all, dd.best_value().is_some());
        }
        if open.is_empty() || step == c.history.min(4) {
            break;
        }
        // next node: oldest first (siblings of one diagram: maximal re-convergence) or a seeded choice;
        // skipped when the cache says so (as at pop time)
        let k = match c.hist_seed % 3 {
            0 => 0,
            1 => r.below(open.len() as u64) as usize,
            _ => {
                // dive: deepest open node, newest among equals (re-visits a state first explored with a worse value)
                let dmax = open.iter().map(|o| o.depth).max().unwrap();
                open.iter().rposition(|o| o.depth == dmax).unwrap()
            }
        };
        node = open.remove(k);
        if !cache.must_explore(&node) {
            note("skipped_by_cache");
            check_thresholds(t, &cache, &open, best_lb);
            break;
        }
        note("second_step");
    }
}
