//! Solver-level harness (sequential): C01, C02, C05(seq), C09(b), C11(c), C14, C15, C19.
use crate::dd::Dd;
use crate::fam::*;
use crate::Cost;
use ddo::*;
use std::sync::Mutex;
use symx_int::{is_symbolic_run, note, oblige, observe, Cond, CostLike};

/// the real SimpleCache behind a transparent wrapper that reports (as notes) when a sub-problem popped
/// from the fringe is discarded because of a recorded threshold
pub struct CountingCache(pub SimpleCache<St>);
impl Default for CountingCache {
    fn default() -> Self {
        CountingCache(SimpleCache::default())
    }
}
impl Cache for CountingCache {
    type State = St;
    fn must_explore(&self, sp: &SubProblem<St>) -> bool {
        let r = self.0.must_explore(sp);
        if !r {
            note("cache_skip_at_pop");
        }
        r
    }
    fn initialize(&mut self, p: &dyn Problem<State = St>) {
        self.0.initialize(p)
    }
    fn get_threshold(&self, s: &St, d: usize) -> Option<Threshold> {
        let r = self.0.get_threshold(s, d);
        if r.is_some() {
            note("cache_hit");
        }
        r
    }
    fn update_threshold(&self, s: std::sync::Arc<St>, d: usize, v: Cost, e: bool) {
        self.0.update_threshold(s, d, v, e)
    }
    fn clear_layer(&self, d: usize) {
        self.0.clear_layer(d)
    }
    fn clear(&self) {
        self.0.clear()
    }
}

#[derive(Clone, Debug, PartialEq)]
pub enum Mode {
    Plain,
    Cutoff,  // symbolic cut-off poll K: C05
    Cutoff2, // two runs, K and K+1: C19
    Warm,    // set_primal with a feasible solution first: C14
    Polls,   // one uninterrupted run, upper bound recorded at every cut-off poll: C19 / C05 for all K at once
}

#[derive(Clone, Debug)]
pub struct SolveCase {
    pub shape: Shape,
    pub rub: Rub,
    pub cache: bool,
    pub nodup: bool,
    pub width: usize, // 0 = NbUnassignedWidth
    pub rev_rank: bool,
    pub mode: Mode,
    pub warm: usize, // index of the feasible path used as primal (mod count)
    pub props: Vec<String>,
    pub kmax: i64,
    pub sym_init: bool,
}

pub struct Outcome {
    pub exact: bool,
    pub cvalue: Option<Cost>,
    pub value: Option<Cost>,
    pub sol: Option<Solution>,
    pub lb: Cost,
    pub ub: Cost,
    pub polls: u64,
    pub fired: bool,
    pub explored: usize,
}

/// what the wrappers around the fringe and the cut-off observe during one run
#[derive(Default)]
pub struct Probe {
    pub last_pop_ub: Mutex<Option<Cost>>,
    pub ub_at_poll: Mutex<Vec<Cost>>,
    pub pushed_above_parent: Mutex<u64>,
}
/// one pending entry of the reference model of the fringe (C11 on solver-generated histories)
#[derive(Clone)]
pub struct Pending {
    state: St,
    depth: usize,
    value: Cost,
    ub: Cost,
    paths: Vec<(Vec<Decision>, Cost)>, // every path coalesced into this entry with its own value
}
pub struct RecFringe<'a> {
    pub inner: &'a mut dyn Fringe<State = St>,
    pub probe: &'a Probe,
    /// Some(nodup?) => check the fringe contract against a reference model on the fly
    pub contract: Option<bool>,
    pub pending: Vec<Pending>,
}
impl Fringe for RecFringe<'_> {
    type State = St;
    fn push(&mut self, node: SubProblem<St>) {
        if let Some(nodup) = self.contract {
            let same = if nodup { self.pending.iter().position(|p| p.state == *node.state && p.depth == node.depth) } else { None };
            match same {
                Some(i) => {
                    note("solver_push_coalesced");
                    let p = &mut self.pending[i];
                    p.value = p.value.mx(node.value);
                    p.ub = p.ub.mx(node.ub);
                    p.paths.push((node.path.clone(), node.value));
                }
                None => self.pending.push(Pending { state: *node.state, depth: node.depth, value: node.value, ub: node.ub, paths: vec![(node.path.clone(), node.value)] }),
            }
        }
        self.inner.push(node);
        if self.contract.is_some() && self.inner.len() != self.pending.len() {
            panic!("SYMX-LABEL[C11:len] (solver history) fringe length {} but {} distinct sub-problems are pending", self.inner.len(), self.pending.len());
        }
    }
    fn pop(&mut self) -> Option<SubProblem<St>> {
        if self.inner.len() >= 4 {
            note("fringe_pop_len_ge4");
        }
        let n = self.inner.pop();
        if let Some(n) = n.as_ref() {
            *self.probe.last_pop_ub.lock().unwrap() = Some(n.ub);
        }
        if self.contract.is_some() {
            match n.as_ref() {
                None => {
                    if !self.pending.is_empty() {
                        panic!("SYMX-LABEL[C11:lost] (solver history) pop returned None although sub-problems are pending");
                    }
                }
                Some(n) => {
                    let pos = self.pending.iter().position(|p| p.state == *n.state && p.depth == n.depth && p.paths.iter().any(|(pa, _)| *pa == n.path));
                    let pos = match pos {
                        Some(x) => x,
                        None => panic!("SYMX-LABEL[C11:invented] (solver history) popped a sub-problem that is not pending (state, depth, path unknown)"),
                    };
                    let p = self.pending[pos].clone();
                    oblige("C11:value-is-max", n.value.eq_c(p.value));
                    oblige("C11:ub-is-max", n.ub.eq_c(p.ub));
                    let own = p.paths.iter().find(|(pa, _)| *pa == n.path).unwrap().1;
                    oblige("C11:path-of-value", own.eq_c(n.value));
                    for (i, o) in self.pending.iter().enumerate() {
                        if i != pos {
                            oblige("C11:max-ub-first", o.ub.lt_c(n.ub).or(o.ub.eq_c(n.ub).and(o.value.le_c(n.value))));
                        }
                    }
                    self.pending.remove(pos);
                    note("pop_some");
                }
            }
        }
        n
    }
    fn clear(&mut self) {
        self.pending.clear();
        self.inner.clear()
    }
    fn len(&self) -> usize {
        self.inner.len()
    }
}
pub struct RecCutoff<'a> {
    pub probe: &'a Probe,
}
impl Cutoff for RecCutoff<'_> {
    fn must_stop(&self) -> bool {
        let ub = self.probe.last_pop_ub.lock().unwrap().unwrap_or(Cost::cmax());
        self.probe.ub_at_poll.lock().unwrap().push(ub);
        false
    }
}

pub enum Primal {
    None,
    One(Cost, Solution),
    Two(Cost, Solution, Cost, Solution),
}

pub fn solve<D: Dd, C: Cache<State = St> + Default>(t: &Table, c: &SolveCase, cutoff: &PollCutoff, primal: Primal) -> Outcome {
    let mut o = solve_with::<D, C>(t, c, cutoff, None, primal);
    o.polls = cutoff.count();
    o.fired = cutoff.has_fired();
    o
}

pub fn solve_with<D: Dd, C: Cache<State = St> + Default>(t: &Table, c: &SolveCase, cutoff: &dyn Cutoff, probe: Option<&Probe>, primal: Primal) -> Outcome {
    let ranking = ByMask(c.rev_rank);
    let fixed = FixedWidth(c.width.max(1));
    let nbu = NbUnassignedWidth(t.sh.n);
    let width: &dyn WidthHeuristic<St> = if c.width == 0 { &nbu } else { &fixed };
    let dominance = EmptyDominanceChecker::default();
    let mut simple = SimpleFringe::new(MaxUB::new(&ranking));
    let mut nodup = NoDupFringe::new(MaxUB::new(&ranking));
    let fringe: &mut dyn Fringe<State = St> = if c.nodup { &mut nodup } else { &mut simple };
    let dummy = Probe::default();
    let contract = if c.props.iter().any(|p| p == "C11") { Some(c.nodup) } else { None };
    let mut rec = RecFringe { inner: fringe, probe: probe.unwrap_or(&dummy), contract, pending: vec![] };
    let fringe: &mut dyn Fringe<State = St> = &mut rec;
    t.reset_monitor();
    let mut solver = SequentialSolver::<St, D, C>::custom(t, t, &ranking, width, &dominance, cutoff, fringe);
    match primal {
        Primal::None => {}
        Primal::One(v, s) => solver.set_primal(v, s),
        Primal::Two(v1, s1, v2, s2) => {
            solver.set_primal(v1, s1);
            solver.set_primal(v2, s2);
        }
    }
    let comp = solver.maximize();
    Outcome { exact: comp.is_exact, cvalue: comp.best_value, value: solver.best_value(), sol: solver.best_solution(), lb: solver.best_lower_bound(), ub: solver.best_upper_bound(), polls: 0, fired: false, explored: solver.explored() }
}

fn opt_eq(v: Option<Cost>, o: Option<Cost>) -> Cond {
    match (v, o) {
        (Some(a), Some(b)) => a.eq_c(b),
        (None, None) => Cond::TRUE,
        _ => Cond::FALSE,
    }
}

pub fn obs(tag: &str, o: &Outcome) {
    observe(&format!("{}-exact", tag), o.exact as i64);
    observe(&format!("{}-value", tag), o.value.map(|v| v.conc()).unwrap_or(i64::MIN));
    observe(&format!("{}-lb", tag), o.lb.conc());
    observe(&format!("{}-ub", tag), o.ub.conc());
    observe(&format!("{}-polls", tag), o.polls as i64);
    observe(&format!("{}-explored", tag), o.explored as i64);
    for d in o.sol.clone().unwrap_or_default() {
        observe("sol", (d.variable.id() as i64) * 100 + d.value.conc());
    }
}

/// C02 clauses for an outcome; `own` = the solver found the solution itself
pub fn c02(t: &Table, o: &Outcome, interrupted: bool, exempt: Option<&Solution>) {
    if o.value.is_some() != o.sol.is_some() {
        panic!("SYMX-LABEL[C02:presence] a solution is present iff a value is present: violated");
    }
    oblige("C02:completion-value", opt_eq(o.cvalue, o.value));
    if let Some(v) = o.value {
        oblige("C02:value-is-lb", v.eq_c(o.lb));
        if !interrupted {
            oblige("C02:ub-equals-value", v.eq_c(o.ub));
        }
        let sol = o.sol.as_ref().unwrap();
        if exempt.map(|e| e == sol).unwrap_or(false) {
            note("caller_solution_returned");
        } else {
            match replay(t, sol, None) {
                Ok((rv, _, _)) => oblige("C02:solution-value", rv.eq_c(v)),
                Err(e) => panic!("SYMX-LABEL[C02:solution-feasible] reported solution is not feasible: {}", e),
            }
        }
    } else if !interrupted {
        // infeasible and finished: both bounds at -inf
        oblige("C02:infeasible-bounds", o.lb.eq_c(Cost::cmin()).and(o.ub.eq_c(Cost::cmin())));
    }
}

pub fn body<D: Dd, C: Cache<State = St> + Default>(c: &SolveCase) {
    let t = Table::new(&c.shape, c.rub.clone(), c.sym_init);
    // (state-wise irrelevance: a merged state may be irrelevant for the variable of the layer it was merged in, and the
    // property does not forbid expanding it there: the clause is only meaningful for member-wise irrelevance)
    t.mon.lock().unwrap().expect_impacted = D::POOLED && t.sh.skip.is_none();
    t.mon.lock().unwrap().check_protocol = c.props.is_empty() || c.props.iter().any(|p| p == "C12");
    let all = enumerate(&t, 0, t.sh.root);
    let opt = max_of(all.iter().map(|p| t.init.plus(p.value)));
    if opt.is_none() {
        note("infeasible");
    }
    let tags: Vec<String> = c.props.iter().filter(|p| ["C01", "C09", "C10", "C11", "C15"].contains(&p.as_str())).cloned().collect();
    let want = |p: &str| c.props.is_empty() || c.props.iter().any(|x| x == p);

    match c.mode {
        Mode::Plain => {
            let o = solve::<D, C>(&t, c, &PollCutoff::never(), Primal::None);
            obs("plain", &o);
            if o.explored >= 2 {
                note("explored_ge2");
            }
            if o.explored >= 4 {
                note("explored_ge4");
            }
            for tag in tags.iter() {
                if !o.exact {
                    panic!("SYMX-LABEL[{}:is-exact] uninterrupted maximize() does not report is_exact", tag);
                }
                oblige(&format!("{}:opt-value", tag), opt_eq(o.value, opt));
            }
            if want("C02") {
                c02(&t, &o, false, None);
            }
        }
        Mode::Cutoff => {
            let k = Cost::input("K", 1, c.kmax);
            let o = solve::<D, C>(&t, c, &PollCutoff::at(k), Primal::None);
            obs("cut", &o);
            let interrupted = !o.exact;
            if interrupted {
                note("interrupted");
            } else {
                note("not_interrupted");
            }
            if want("C05") {
                match opt {
                    Some(op) => {
                        oblige("C05:lb-le-opt", o.lb.le_c(op));
                        oblige("C05:opt-le-ub", op.le_c(o.ub));
                        if o.exact {
                            oblige("C05:exact-is-opt", opt_eq(o.value, opt));
                        }
                    }
                    None => {
                        oblige("C05:infeasible-lb", o.lb.eq_c(Cost::cmin()));
                        if o.value.is_some() {
                            oblige("C05:infeasible-value", Cond::FALSE);
                        }
                    }
                }
                // any reported solution is feasible with value equal to the lower bound
                if let (Some(v), Some(sol)) = (o.value, o.sol.as_ref()) {
                    oblige("C05:value-is-lb", v.eq_c(o.lb));
                    match replay(&t, sol, None) {
                        Ok((rv, _, _)) => oblige("C05:solution-value", rv.eq_c(v)),
                        Err(e) => panic!("SYMX-LABEL[C05:solution-feasible] {}", e),
                    }
                }
            }
            if want("C02") {
                c02(&t, &o, interrupted, None);
            }
        }
        Mode::Cutoff2 => {
            let k = Cost::input("K", 1, c.kmax);
            let o1 = solve::<D, C>(&t, c, &PollCutoff::at(k), Primal::None);
            let o2 = solve::<D, C>(&t, c, &PollCutoff::at(k.plus(Cost::lit(1))), Primal::None);
            obs("k", &o1);
            obs("k1", &o2);
            if !o1.exact {
                note("interrupted");
            }
            if !o1.exact && o2.exact {
                note("boundary");
            }
            oblige("C19:lb-monotone", o1.lb.le_c(o2.lb));
            oblige("C19:ub-monotone", o2.ub.le_c(o1.ub));
            if o1.exact && !o2.exact {
                panic!("SYMX-LABEL[C19:exact-monotone] run cut at K is exact but run cut at K+1 is not");
            }
            // a run that was not interrupted is exact with both bounds at the optimum
            if !o1.fired {
                if !o1.exact {
                    panic!("SYMX-LABEL[C19:uninterrupted-exact] cut-off never fired but the run is not exact");
                }
                if let Some(op) = opt {
                    oblige("C19:final-bounds", o1.lb.eq_c(op).and(o1.ub.eq_c(op)));
                }
            }
        }
        Mode::Polls => {
            let probe = Probe::default();
            let o = solve_with::<D, C>(&t, c, &RecCutoff { probe: &probe }, Some(&probe), Primal::None);
            obs("polls", &o);
            let ubs = probe.ub_at_poll.lock().unwrap().clone();
            note_polls(ubs.len());
            if is_symbolic_run() {
                // a run cut at poll K behaves like this run up to poll K (the solver is deterministic) and
                // then reports the upper bound of the sub-problem popped last: one run covers every K
                for i in 0..ubs.len() {
                    if want("C19") && i + 1 < ubs.len() {
                        oblige("C19:poll-ub-monotone", ubs[i + 1].le_c(ubs[i]));
                    }
                    if want("C05") {
                        if let Some(op) = opt {
                            oblige("C05:poll-opt-le-ub", op.le_c(ubs[i]));
                        }
                    }
                }
            } else {
                // concrete replay: ground truth from real cut-off runs, literally as the properties state it
                let mut prev: Option<Outcome> = None;
                for k in 1..=(ubs.len() as i64 + 1) {
                    let o = solve::<D, C>(&t, c, &PollCutoff::at(Cost::lit(k)), Primal::None);
                    if want("C05") {
                        if let Some(op) = opt {
                            oblige("C05:poll-opt-le-ub", op.le_c(o.ub));
                        }
                    }
                    if let Some(p) = prev.as_ref() {
                        if want("C19") {
                            oblige("C19:poll-ub-monotone", o.ub.le_c(p.ub));
                        }
                    }
                    prev = Some(o);
                }
            }
        }
        Mode::Warm => {
            if all.is_empty() {
                note("infeasible_no_primal");
                return;
            }
            let q = &all[c.warm % all.len()];
            let vq = t.init.plus(q.value);
            let sq: Solution = q.decs.iter().filter(|(_, val)| *val < t.sh.d).map(|(var, val)| Decision { variable: Variable(*var), value: Cost::lit(*val as i64) }).collect();
            let mut sq_sorted = sq.clone();
            sq_sorted.sort_unstable_by_key(|d| d.variable.id());
            let o = solve::<D, C>(&t, c, &PollCutoff::never(), Primal::One(vq, sq.clone()));
            obs("warm", &o);
            if !o.exact {
                panic!("SYMX-LABEL[C14:is-exact] warm-started run is not exact");
            }
            oblige("C14:opt-value", opt_eq(o.value, opt));
            if want("C02") || true {
                c02(&t, &o, false, Some(&sq_sorted));
            }
            // when the caller's solution comes back, its value must be the optimum (covered by opt-value)
            // set_primal replaces the incumbent only when strictly greater
            let q2 = &all[(c.warm + 1) % all.len()];
            let vq2 = t.init.plus(q2.value);
            let sq2: Solution = q2.decs.iter().filter(|(_, val)| *val < t.sh.d).map(|(var, val)| Decision { variable: Variable(*var), value: Cost::lit(*val as i64) }).collect();
            let ranking = ByMask(false);
            let fixed = FixedWidth(1);
            let dominance = EmptyDominanceChecker::default();
            let mut fr = SimpleFringe::new(MaxUB::new(&ranking));
            let never = PollCutoff::never();
            let mut s = SequentialSolver::<St, D, C>::custom(&t, &t, &ranking, &fixed, &dominance, &never, &mut fr);
            s.set_primal(vq, sq.clone());
            s.set_primal(vq2, sq2.clone());
            let bv = s.best_value().expect("value after set_primal");
            oblige("C14:set-primal-max", bv.eq_c(vq.mx(vq2)));
            let kept_first = s.best_solution() == Some(sq.clone());
            let kept_second = s.best_solution() == Some(sq2.clone());
            if sq != sq2 {
                // first stays unless the second is strictly greater
                let second_greater = vq2.gt_c(vq);
                if kept_second && !kept_first {
                    oblige("C14:set-primal-strict", second_greater);
                } else if kept_first {
                    oblige("C14:set-primal-strict", second_greater.not());
                } else {
                    panic!("SYMX-LABEL[C14:set-primal-solution] incumbent solution is neither of the two supplied");
                }
            }
        }
    }
}

fn note_polls(n: usize) {
    if n >= 4 {
        note("polls_ge4");
    }
    if n >= 8 {
        note("polls_ge8");
    }
}
