//! Container-level harnesses: fringes (C11), threshold cache (C18), dominance
//! checker (C10) against reference models, with symbolic values.
use crate::fam::Rng;
use crate::Cost;
use ddo::*;
use std::sync::Arc;
use symx_int::{note, oblige, observe, Cond, CostLike};

// ------------------------------------------------------------------ C11: fringes
pub struct ByU8;
impl StateRanking for ByU8 {
    type State = u8;
    fn compare(&self, a: &u8, b: &u8) -> std::cmp::Ordering {
        a.cmp(b)
    }
}

#[derive(Clone, Debug)]
pub enum FOp {
    Push(u8, usize),
    Pop,
    Clear,
}

/// heap-shaped history: `fill` pushes on distinct (state, depth) keys (seeded order), optionally one re-push of an
/// existing key, then pops until empty (the order of the pops depends on the symbolic bounds: the solver explores them)
pub fn fringe_fill_ops(seed: u64, fill: usize, nstates: u8, ndepths: usize) -> Vec<FOp> {
    let mut r = Rng(seed.wrapping_mul(0x9E37) ^ 0xf111);
    let mut keys: Vec<(u8, usize)> = vec![];
    for s in 0..nstates {
        for d in 0..ndepths {
            keys.push((s, d));
        }
    }
    for i in (1..keys.len()).rev() {
        let j = r.below(i as u64 + 1) as usize;
        keys.swap(i, j);
    }
    let mut v: Vec<FOp> = keys.iter().take(fill).map(|(s, d)| FOp::Push(*s, *d)).collect();
    match r.below(3) {
        0 => {
            let (s, d) = keys[r.below(fill.min(keys.len()) as u64) as usize];
            v.push(FOp::Push(s, d));
        }
        1 => {
            v.insert(fill / 2, FOp::Pop);
        }
        _ => {}
    }
    for _ in 0..fill + 1 {
        v.push(FOp::Pop);
    }
    v
}

/// fill / pop / RE-PUSH / drain histories: `fill` distinct keys, one or two pops (each sinks the moved last node), then
/// two or more of the filled keys are pushed again (coalescing + re-heapify of nodes that were moved by a sift-down, or
/// fresh entries for the popped ones, reusing recycled ids), then everything is drained
pub fn fringe_repush_ops(seed: u64, fill: usize, nstates: u8, ndepths: usize) -> Vec<FOp> {
    let mut r = Rng(seed.wrapping_mul(0x9E37) ^ 0xf222);
    let mut keys: Vec<(u8, usize)> = vec![];
    for s in 0..nstates {
        for d in 0..ndepths {
            keys.push((s, d));
        }
    }
    for i in (1..keys.len()).rev() {
        let j = r.below(i as u64 + 1) as usize;
        keys.swap(i, j);
    }
    let fill = fill.min(keys.len());
    let mut v: Vec<FOp> = keys.iter().take(fill).map(|(s, d)| FOp::Push(*s, *d)).collect();
    let pops = 1 + r.below(2) as usize;
    for _ in 0..pops {
        v.push(FOp::Pop);
    }
    let again = 2 + r.below((fill - 1).max(1) as u64) as usize;
    for k in 0..again.min(fill) {
        let (s, d) = keys[(k + r.below(fill as u64) as usize) % fill];
        v.push(FOp::Push(s, d));
        if k == 0 && r.chance(1, 3) {
            v.push(FOp::Pop);
        }
    }
    for _ in 0..fill + 1 {
        v.push(FOp::Pop);
    }
    v
}

pub fn fringe_ops(seed: u64, len: usize, nstates: u8, ndepths: usize) -> Vec<FOp> {
    let mut r = Rng(seed.wrapping_mul(0x9E37) ^ 0xf00d);
    loop {
        let mut v = vec![];
        for _ in 0..len {
            let x = r.below(100);
            v.push(if x < 58 {
                FOp::Push(r.below(nstates as u64) as u8, r.below(ndepths as u64) as usize)
            } else if x < 94 {
                FOp::Pop
            } else {
                FOp::Clear
            });
        }
        let pushes = v.iter().filter(|o| matches!(o, FOp::Push(..))).count();
        let pops = v.iter().filter(|o| matches!(o, FOp::Pop)).count();
        if pushes >= 2 && pops >= 1 {
            return v;
        }
    }
}

#[derive(Clone, Debug)]
struct RefItem {
    state: u8,
    depth: usize,
    value: Cost,
    ub: Cost,
    ids: Vec<usize>,        // push ids coalesced into this item
    id_values: Vec<Cost>,   // their values
}

pub fn fringe_body(nodup: bool, ops: &[FOp]) {
    let ranking = ByU8;
    let mut simple = SimpleFringe::new(MaxUB::new(&ranking));
    let mut nd = NoDupFringe::new(MaxUB::new(&ranking));
    let f: &mut dyn Fringe<State = u8> = if nodup { &mut nd } else { &mut simple };
    let mut reference: Vec<RefItem> = vec![];
    let mut npush = 0usize;
    let mut check_pop = |f: &mut dyn Fringe<State = u8>, reference: &mut Vec<RefItem>, tag: &str| {
        if f.len() != reference.len() {
            panic!("SYMX-LABEL[C11:len] fringe reports length {} but {} sub-problems are poppable", f.len(), reference.len());
        }
        if f.is_empty() != reference.is_empty() {
            panic!("SYMX-LABEL[C11:len] is_empty disagrees with the reference");
        }
        let p = f.pop();
        match p {
            None => {
                if !reference.is_empty() {
                    panic!("SYMX-LABEL[C11:lost] pop returned None although {} sub-problems are pending", reference.len());
                }
            }
            Some(p) => {
                let id = p.path.first().map(|d| d.variable.id()).unwrap_or(usize::MAX);
                observe(tag, id as i64);
                // which reference item does it denote?
                let pos = reference.iter().position(|r| r.ids.contains(&id));
                let pos = match pos {
                    Some(x) => x,
                    None => panic!("SYMX-LABEL[C11:invented] popped a sub-problem (push #{}) that is not pending", id),
                };
                let r = reference[pos].clone();
                if r.state != *p.state || r.depth != p.depth {
                    panic!("SYMX-LABEL[C11:identity] popped sub-problem has state/depth ({}, {}), pushed as ({}, {})", p.state, p.depth, r.state, r.depth);
                }
                // survivor: the larger value with that value's own path, the larger ub
                oblige("C11:value-is-max", p.value.eq_c(r.value));
                oblige("C11:ub-is-max", p.ub.eq_c(r.ub));
                let own = r.id_values[r.ids.iter().position(|x| *x == id).unwrap()];
                oblige("C11:path-of-value", own.eq_c(p.value));
                // order: nothing pending has a larger ub; ties by larger value
                for (i, o) in reference.iter().enumerate() {
                    if i != pos {
                        oblige("C11:max-ub-first", o.ub.lt_c(p.ub).or(o.ub.eq_c(p.ub).and(o.value.le_c(p.value))));
                    }
                }
                reference.remove(pos);
                note("pop_some");
            }
        }
    };
    for (k, op) in ops.iter().enumerate() {
        match op {
            FOp::Push(s, d) => {
                let id = npush;
                npush += 1;
                let value = Cost::input(&format!("v{}", id), -1000, 1000);
                let ub = Cost::input(&format!("u{}", id), -1000, 1000);
                let sp = SubProblem { state: Arc::new(*s), value, path: vec![Decision { variable: Variable(id), value: Cost::lit(id as i64) }], ub, depth: *d };
                f.push(sp);
                let same = if nodup { reference.iter().position(|r| r.state == *s && r.depth == *d) } else { None };
                match same {
                    Some(pos) => {
                        note("coalesced");
                        let r = &mut reference[pos];
                        r.value = r.value.mx(value);
                        r.ub = r.ub.mx(ub);
                        r.ids.push(id);
                        r.id_values.push(value);
                    }
                    None => {
                        if nodup && reference.iter().any(|r| r.state == *s) {
                            note("same_state_other_depth");
                        }
                        reference.push(RefItem { state: *s, depth: *d, value, ub, ids: vec![id], id_values: vec![value] });
                    }
                }
                if f.len() != reference.len() {
                    panic!("SYMX-LABEL[C11:len] after push #{} (op {}): fringe length {} but {} distinct sub-problems are pending", id, k, f.len(), reference.len());
                }
            }
            FOp::Pop => check_pop(f, &mut reference, "pop"),
            FOp::Clear => {
                f.clear();
                reference.clear();
                if f.len() != 0 || !f.is_empty() {
                    panic!("SYMX-LABEL[C11:len] fringe not empty after clear");
                }
            }
        }
    }
    // nothing lost: drain
    let mut guard = 0;
    while !reference.is_empty() || f.len() > 0 {
        check_pop(f, &mut reference, "drain");
        guard += 1;
        if guard > 64 {
            panic!("SYMX-LABEL[C11:lost] drain does not terminate");
        }
    }
}

// ------------------------------------------------------------------ C18: cache (sequential spec)
#[derive(Clone, Debug)]
pub enum COp {
    Update(u8, usize),
    Get(u8, usize),
    ClearLayer(usize),
    Clear,
}
pub fn cache_ops(seed: u64, len: usize) -> Vec<COp> {
    let mut r = Rng(seed.wrapping_mul(0x51ed) ^ 0xcac4e);
    loop {
        let mut v = vec![];
        for _ in 0..len {
            let x = r.below(100);
            let (s, d) = (r.below(2) as u8, r.below(2) as usize);
            v.push(if x < 50 {
                COp::Update(s, d)
            } else if x < 85 {
                COp::Get(s, d)
            } else if x < 95 {
                COp::ClearLayer(d)
            } else {
                COp::Clear
            });
        }
        let ups = v.iter().filter(|o| matches!(o, COp::Update(..))).count();
        let gets = v.iter().filter(|o| matches!(o, COp::Get(..))).count();
        if ups >= 2 && gets >= 1 {
            v.push(COp::Get(0, 0));
            v.push(COp::Get(1, 0));
            v.push(COp::Get(0, 1));
            v.push(COp::Get(1, 1));
            return v;
        }
    }
}
struct DummyPb;
impl Problem for DummyPb {
    type State = u8;
    fn nb_variables(&self) -> usize {
        1
    }
    fn initial_state(&self) -> u8 {
        0
    }
    fn initial_value(&self) -> Cost {
        Cost::lit(0)
    }
    fn transition(&self, _: &u8, _: Decision) -> u8 {
        0
    }
    fn transition_cost(&self, _: &u8, _: &u8, _: Decision) -> Cost {
        Cost::lit(0)
    }
    fn next_variable(&self, _: usize, _: &mut dyn Iterator<Item = &u8>) -> Option<Variable> {
        None
    }
    fn for_each_in_domain(&self, _: Variable, _: &u8, _: &mut dyn DecisionCallback) {}
}

/// obligations: `got` is the lexicographic (value, explored) maximum of `recorded`
pub fn check_threshold(label: &str, got: Option<Threshold>, recorded: &[(Cost, bool)]) {
    match got {
        None => {
            if !recorded.is_empty() {
                panic!("SYMX-LABEL[{}:lost-update] no threshold although {} were recorded since the layer was last cleared", label, recorded.len());
            }
        }
        Some(t) => {
            if recorded.is_empty() {
                panic!("SYMX-LABEL[{}:stale] a threshold is returned although none was recorded since the last clear", label);
            }
            let mut is_one = Cond::FALSE;
            for (v, e) in recorded.iter() {
                is_one = is_one.or(v.eq_c(t.value).and(Cond::lit(*e == t.explored)));
                // (v, e) <= (t.value, t.explored) lexicographically
                oblige(&format!("{}:threshold-is-max", label), v.lt_c(t.value).or(v.eq_c(t.value).and(Cond::lit(!*e || t.explored))));
            }
            oblige(&format!("{}:threshold-is-recorded", label), is_one);
        }
    }
}

pub fn cache_body(ops: &[COp]) {
    let mut cache = SimpleCache::<u8>::default();
    cache.initialize(&DummyPb); // layers 0..=1
    let mut reference: Vec<Vec<Vec<(Cost, bool)>>> = vec![vec![vec![]; 2]; 2]; // [depth][state]
    let mut nup = 0;
    for op in ops {
        match op {
            COp::Update(s, d) => {
                let v = Cost::input(&format!("t{}", nup), -1000, 1000);
                let e = Cost::input(&format!("e{}", nup), 0, 1) == Cost::lit(1); // forks
                nup += 1;
                cache.update_threshold(Arc::new(*s), *d, v, e);
                reference[*d][*s as usize].push((v, e));
            }
            COp::Get(s, d) => {
                let got = cache.get_threshold(s, *d);
                observe("get", got.map(|t| t.value.conc() * 2 + t.explored as i64).unwrap_or(i64::MIN));
                if reference[*d][*s as usize].len() >= 2 {
                    note("get_over_two_updates");
                }
                check_threshold("C18", got, &reference[*d][*s as usize]);
            }
            COp::ClearLayer(d) => {
                cache.clear_layer(*d);
                note("clear_layer");
                for s in 0..2 {
                    reference[*d][s].clear();
                }
            }
            COp::Clear => {
                cache.clear();
                for d in 0..2 {
                    for s in 0..2 {
                        reference[d][s].clear();
                    }
                }
            }
        }
    }
}

// ------------------------------------------------------------------ C10: dominance checker
#[derive(Clone, Debug)]
pub struct DState {
    pub key: u8,
    pub c: [Cost; 2],
}
pub struct Dom2 {
    pub use_val: bool,
}
impl Dominance for Dom2 {
    type State = DState;
    type Key = u8;
    fn get_key(&self, s: Arc<DState>) -> Option<u8> {
        if s.key == 255 {
            None
        } else {
            Some(s.key)
        }
    }
    fn nb_dimensions(&self, _: &DState) -> usize {
        2
    }
    fn get_coordinate(&self, s: &DState, i: usize) -> Cost {
        s.c[i]
    }
    fn use_value(&self) -> bool {
        self.use_val
    }
}

/// does r dominate q (same key assumed): >= everywhere, > somewhere
fn dominates(use_val: bool, r: &(DState, Cost), q: &(DState, Cost)) -> Cond {
    let mut ge = r.0.c[0].ge_c(q.0.c[0]).and(r.0.c[1].ge_c(q.0.c[1]));
    let mut gt = r.0.c[0].gt_c(q.0.c[0]).or(r.0.c[1].gt_c(q.0.c[1]));
    if use_val {
        ge = ge.and(r.1.ge_c(q.1));
        gt = gt.or(r.1.gt_c(q.1));
    }
    ge.and(gt)
}
fn dominated_by_any(use_val: bool, rec: &[(DState, Cost)], q: &(DState, Cost)) -> Cond {
    let mut acc = Cond::FALSE;
    for r in rec.iter().filter(|r| r.0.key == q.0.key) {
        acc = acc.or(dominates(use_val, r, q));
    }
    acc
}

pub fn dominance_body(seed: u64, nq: usize, use_val: bool) {
    let mut r = Rng(seed ^ 0xd0d0);
    let checker = SimpleDominanceChecker::new(Dom2 { use_val }, 1);
    let mut recorded: Vec<(DState, Cost)> = vec![];
    for i in 0..nq + 2 {
        let probe = i >= nq;
        let key = if r.chance(1, 12) { 255 } else if r.chance(3, 4) { 0 } else { 1 };
        let st = DState { key, c: [Cost::input(&format!("a{}", i), -100, 100), Cost::input(&format!("b{}", i), -100, 100)] };
        let val = Cost::input(&format!("val{}", i), -100, 100);
        let depth = 0;
        let res = checker.is_dominated_or_insert(Arc::new(st.clone()), depth, val);
        observe("dom", res.dominated as i64);
        let q = (st.clone(), val);
        let expect = if key == 255 { Cond::FALSE } else { dominated_by_any(use_val, &recorded, &q) };
        let label = if probe { "C10:front-answers" } else { "C10:verdict" };
        if res.dominated {
            note("dominated");
            oblige(label, expect);
            match res.threshold {
                Some(t) => {
                    oblige("C10:threshold-ge-value", t.ge_c(val));
                    // the same state presented with value t would be dominated too
                    let qt = (st.clone(), t);
                    oblige("C10:threshold-sound", dominated_by_any(use_val, &recorded, &qt).or(if use_val { Cond::FALSE } else { expect }));
                }
                None => panic!("SYMX-LABEL[C10:threshold-present] dominated verdict without a threshold"),
            }
        } else {
            oblige(label, expect.not());
            if res.threshold.is_some() {
                panic!("SYMX-LABEL[C10:threshold-absent] a threshold is returned with a not-dominated verdict");
            }
            if key != 255 {
                recorded.push(q);
            }
        }
    }
}

/// C18: the store answers as the Pareto front (a SET) of everything recorded would: the same states recorded in
/// two different orders must give identical answers (verdict and threshold) to every later query
pub fn dominance_order_body(seed: u64, nq: usize, use_val: bool) {
    let mut r = Rng(seed ^ 0x0dd);
    let fwd = SimpleDominanceChecker::new(Dom2 { use_val }, 1);
    let bwd = SimpleDominanceChecker::new(Dom2 { use_val }, 1);
    let mut items: Vec<(DState, Cost)> = vec![];
    for i in 0..nq {
        let key = if r.chance(4, 5) { 0 } else { 1 };
        items.push((DState { key, c: [Cost::input(&format!("a{}", i), -100, 100), Cost::input(&format!("b{}", i), -100, 100)] }, Cost::input(&format!("val{}", i), -100, 100)));
    }
    for (st, v) in items.iter() {
        let _ = fwd.is_dominated_or_insert(Arc::new(st.clone()), 0, *v);
    }
    for (st, v) in items.iter().rev() {
        let _ = bwd.is_dominated_or_insert(Arc::new(st.clone()), 0, *v);
    }
    for i in 0..2 {
        let st = DState { key: 0, c: [Cost::input(&format!("pa{}", i), -100, 100), Cost::input(&format!("pb{}", i), -100, 100)] };
        let v = Cost::input(&format!("pval{}", i), -100, 100);
        let a = fwd.is_dominated_or_insert(Arc::new(st.clone()), 0, v);
        let b = bwd.is_dominated_or_insert(Arc::new(st.clone()), 0, v);
        observe("order", a.dominated as i64 * 2 + b.dominated as i64);
        if a.dominated != b.dominated {
            panic!("SYMX-LABEL[C18:front-order-independent] the same recorded states give different verdicts depending on the order in which they were recorded");
        }
        if a.dominated {
            note("dominated");
            match (a.threshold, b.threshold) {
                (Some(x), Some(y)) => oblige("C18:front-order-independent", x.eq_c(y)),
                (None, None) => {}
                _ => panic!("SYMX-LABEL[C18:front-order-independent] threshold present in one order only"),
            }
        }
    }
}

// ------------------------------------------------------------------ C18: concurrent phases under the scheduler
#[cfg(feature = "sched")]
pub fn cache_conc_body(nthreads: usize, nops: usize, preempt: u32, seed: u64) {
    use std::sync::Mutex;
    let mut r = Rng(seed ^ 0xc0c0);
    let mut cache = SimpleCache::<u8>::default();
    cache.initialize(&DummyPb);
    // inputs are declared up-front by the main thread (deterministic declaration order)
    let mut vals: Vec<Vec<(Cost, bool)>> = vec![];
    for t in 0..nthreads {
        let mut v = vec![];
        for k in 0..nops {
            v.push((Cost::input(&format!("w{}_{}", t, k), -1000, 1000), r.chance(1, 2)));
        }
        vals.push(v);
    }
    // an initial threshold so that every update is a read-modify-write
    let init = (Cost::input("w_init", -1000, 1000), false);
    cache.update_threshold(Arc::new(0u8), 0, init.0, init.1);
    let seen: Mutex<Vec<(usize, usize, Option<Threshold>)>> = Mutex::new(vec![]);
    symx_sched::begin(nthreads, preempt, 2000, true);
    let res = std::panic::catch_unwind(std::panic::AssertUnwindSafe(|| {
        std::thread::scope(|s| {
            for t in 0..nthreads {
                let cache = &cache;
                let vals = &vals;
                let seen = &seen;
                s.spawn(move || {
                    let _g = symx_sched::worker_enter(t);
                    for k in 0..nops {
                        let (v, e) = vals[t][k];
                        cache.update_threshold(Arc::new(0u8), 0, v, e);
                        let got = cache.get_threshold(&0u8, 0);
                        seen.lock().unwrap().push((t, k, got));
                    }
                });
            }
        });
    }));
    let sum = symx_sched::end();
    if let Err(e) = res {
        std::panic::resume_unwind(e);
    }
    if sum.preemptions > 0 {
        note("preemption");
    }
    if sum.switches > 0 {
        note("context_switch");
    }
    // (1) an update is visible to its own thread right after it returned, and what a thread reads never decreases
    let seen = seen.lock().unwrap().clone();
    for t in 0..nthreads {
        let mut prev: Option<Threshold> = None;
        for k in 0..nops {
            let got = seen.iter().find(|x| x.0 == t && x.1 == k).and_then(|x| x.2);
            let (v, e) = vals[t][k];
            match got {
                None => panic!("SYMX-LABEL[C18:lost-update] thread {} reads no threshold right after recording one", t),
                Some(g) => {
                    oblige("C18:own-update-visible", v.lt_c(g.value).or(v.eq_c(g.value).and(Cond::lit(!e || g.explored))));
                    if let Some(p) = prev {
                        oblige("C18:never-decreases", p.value.lt_c(g.value).or(p.value.eq_c(g.value).and(Cond::lit(!p.explored || g.explored))));
                    }
                    prev = Some(g);
                }
            }
        }
    }
    // (2) the final content equals what ANY sequential order of the same updates gives: the max
    let mut all: Vec<(Cost, bool)> = vec![init];
    for t in 0..nthreads {
        all.extend(vals[t].iter().copied());
    }
    check_threshold("C18", cache.get_threshold(&0u8, 0), &all);
}

#[cfg(feature = "sched")]
pub fn dominance_conc_body(nthreads: usize, preempt: u32, use_val: bool) {
    let checker = SimpleDominanceChecker::new(Dom2 { use_val }, 1);
    let mut presented: Vec<(DState, Cost)> = vec![];
    for t in 0..nthreads {
        let st = DState { key: 0, c: [Cost::input(&format!("a{}", t), -100, 100), Cost::input(&format!("b{}", t), -100, 100)] };
        presented.push((st, Cost::input(&format!("val{}", t), -100, 100)));
    }
    symx_sched::begin(nthreads, preempt, 2000, true);
    let res = std::panic::catch_unwind(std::panic::AssertUnwindSafe(|| {
        std::thread::scope(|s| {
            for t in 0..nthreads {
                let checker = &checker;
                let presented = &presented;
                s.spawn(move || {
                    let _g = symx_sched::worker_enter(t);
                    let (st, v) = presented[t].clone();
                    let _ = checker.is_dominated_or_insert(Arc::new(st), 0, v);
                });
            }
        });
    }));
    let sum = symx_sched::end();
    if let Err(e) = res {
        std::panic::resume_unwind(e);
    }
    if sum.switches > 0 {
        note("context_switch");
    }
    // afterwards the store answers as the Pareto front of everything recorded (order independent):
    // verdict against the reference definition, verdict + threshold against a store filled sequentially
    let seq = SimpleDominanceChecker::new(Dom2 { use_val }, 1);
    for (st, v) in presented.iter() {
        let _ = seq.is_dominated_or_insert(Arc::new(st.clone()), 0, *v);
    }
    for i in 0..2 {
        let st = DState { key: 0, c: [Cost::input(&format!("pa{}", i), -100, 100), Cost::input(&format!("pb{}", i), -100, 100)] };
        let v = Cost::input(&format!("pval{}", i), -100, 100);
        let q = (st.clone(), v);
        let expect = dominated_by_any(use_val, &presented, &q);
        let res = checker.is_dominated_or_insert(Arc::new(st.clone()), 0, v);
        let sres = seq.is_dominated_or_insert(Arc::new(st), 0, v);
        if res.dominated != sres.dominated {
            panic!("SYMX-LABEL[C18:front-order-independent] store filled concurrently and store filled sequentially give different verdicts");
        }
        if let (Some(x), Some(y)) = (res.threshold, sres.threshold) {
            oblige("C18:front-order-independent", x.eq_c(y));
        }
        if res.dominated {
            oblige("C18:dominance-front-after-concurrency", expect);
        } else {
            oblige("C18:dominance-front-after-concurrency", expect.not());
            presented.push(q);
        }
    }
}
