//! symx harness driver.  Usage: harness key=value ...   (one JSON line per sub-case on stdout)
//! Built twice from the same source: feature `symx` (Cost = SymInt, against the
//! type-substituted shadow crate) and without it (Cost = isize, against the
//! unmodified /repo/ddo) for native replay and differential self-validation.
#[cfg(feature = "symx")]
pub type Cost = symx_int::SymInt;
#[cfg(not(feature = "symx"))]
pub type Cost = isize;

mod cont;
mod dd;
mod fam;
mod knap;
#[cfg(feature = "sched")]
mod par;
mod solve;
mod viz;

use ddo::*;
use fam::*;
use std::collections::BTreeMap;
use symx_int::json::esc;
use symx_int::{explore, Limits, Report};

pub struct Args(pub BTreeMap<String, String>);
impl Args {
    pub fn get(&self, k: &str, default: &str) -> String {
        self.0.get(k).cloned().unwrap_or_else(|| default.to_string())
    }
    pub fn num(&self, k: &str, default: u64) -> u64 {
        self.0.get(k).map(|v| v.parse().unwrap_or_else(|_| panic!("bad number for {}", k))).unwrap_or(default)
    }
    pub fn flag(&self, k: &str) -> bool {
        self.num(k, 0) != 0
    }
    pub fn list(&self, k: &str, default: &str) -> Vec<String> {
        self.get(k, default).split(',').filter(|s| !s.is_empty()).map(|s| s.to_string()).collect()
    }
}

fn gen_params(a: &Args) -> GenParams {
    GenParams {
        n: a.num("n", 3) as usize,
        b: a.num("b", 2) as usize,
        d: a.num("d", 2) as usize,
        seed: a.num("seed", 1),
        depth_free: a.flag("depth_free"),
        long_arcs: a.flag("long_arcs"),
        bonus: a.flag("bonus"),
        perm: a.flag("perm"),
        nsym: a.0.get("nsym").map(|v| v.parse().unwrap()).unwrap_or(usize::MAX),
        setnext: a.flag("setnext"),
        statewise: a.flag("statewise"),
    }
}

fn emit(case: &BTreeMap<String, String>, shape: &str, rep: &Report) {
    let items: Vec<String> = case.iter().map(|(k, v)| format!("{}:{}", esc(k), esc(v))).collect();
    println!("{{\"case\":{{{}}},\"shape\":{},\"symbolic\":{},\"report\":{}}}", items.join(","), esc(shape), cfg!(feature = "symx"), rep.to_json());
}

fn parse_inputs(s: &str) -> Vec<(String, i64)> {
    s.split(',').filter(|x| !x.is_empty()).map(|kv| {
        let (k, v) = kv.split_once(':').expect("inputs=name:value,...");
        (k.to_string(), v.parse().expect("input value"))
    }).collect()
}

fn run_dd(a: &Args, limits: &Limits, symbolic: bool, initial: &[(String, i64)]) {
    let gp = gen_params(a);
    let shape = Shape::generate(&gp);
    let rub = if a.get("rub", "none") == "hslack" { Rub::HSlack } else { Rub::None };
    let probe = Table::new(&shape, Rub::None, false);
    let nroots = dd::reachable_roots(&probe).len();
    drop(probe);
    let roots: Vec<usize> = match a.get("roots", "all").as_str() {
        "all" => (0..nroots).collect(),
        s => s.split(',').map(|x| x.parse::<usize>().unwrap() % nroots).collect(),
    };
    let widths: Vec<usize> = a.list("width", "2").iter().map(|w| w.parse().unwrap()).collect();
    let comps = a.list("comp", "relaxed");
    let dds = a.list("dd", "lel");
    for ddname in dds.iter() {
        for comp in comps.iter() {
            for &w in widths.iter() {
                for &r in roots.iter() {
                    let c = dd::DdCase {
                        shape: shape.clone(),
                        rub: rub.clone(),
                        comp: match comp.as_str() {
                            "relaxed" => CompilationType::Relaxed,
                            "restricted" => CompilationType::Restricted,
                            "exact" => CompilationType::Exact,
                            x => panic!("comp={}", x),
                        },
                        width: w,
                        root: r,
                        sym_lb: a.get("lb", "sym") == "sym",
                        rev_rank: a.flag("rev"),
                        history: a.num("hist", 0) as usize,
                        hist_seed: a.num("hist_seed", gp.seed),
                        viz_all: a.flag("viz_all"),
                        props: a.list("props", ""),
                        hist_solver_like: a.flag("hist_sym"),
                        hist_width: a.num("hist_w", 0) as usize,
                    };
                    let rep = match ddname.as_str() {
                        "lel" => explore(limits, gp.seed, symbolic, initial, &mut || dd::body::<Mdd<St, { LAST_EXACT_LAYER }>>(&c)),
                        "frontier" => explore(limits, gp.seed, symbolic, initial, &mut || dd::body::<Mdd<St, { FRONTIER }>>(&c)),
                        "pooled" => explore(limits, gp.seed, symbolic, initial, &mut || dd::body::<Pooled<St>>(&c)),
                        x => panic!("dd={}", x),
                    };
                    let mut case = a.0.clone();
                    case.insert("dd".into(), ddname.clone());
                    case.insert("comp".into(), comp.clone());
                    case.insert("width".into(), w.to_string());
                    case.insert("roots".into(), r.to_string());
                    case.remove("inputs");
                    emit(&case, &shape.describe(), &rep);
                }
            }
        }
    }
}

fn run_solve(a: &Args, limits: &Limits, symbolic: bool, initial: &[(String, i64)]) {
    let gp = gen_params(a);
    let shape = Shape::generate(&gp);
    let rub = if a.get("rub", "none") == "hslack" { Rub::HSlack } else { Rub::None };
    for ddname in a.list("dd", "lel").iter() {
        for cache in a.list("cache", "0").iter() {
            for fringe in a.list("fringe", "simple").iter() {
                for w in a.list("width", "2").iter() {
                    for mode in a.list("mode", "plain").iter() {
                        let c = solve::SolveCase {
                            shape: shape.clone(),
                            rub: rub.clone(),
                            cache: cache == "1",
                            nodup: fringe == "nodup",
                            width: w.parse().unwrap(),
                            rev_rank: a.flag("rev"),
                            mode: match mode.as_str() {
                                "plain" => solve::Mode::Plain,
                                "cutoff" => solve::Mode::Cutoff,
                                "cutoff2" => solve::Mode::Cutoff2,
                                "warm" => solve::Mode::Warm,
                                "polls" => solve::Mode::Polls,
                                x => panic!("mode={}", x),
                            },
                            warm: a.num("warm", 0) as usize,
                            props: a.list("props", ""),
                            kmax: a.num("kmax", 40) as i64,
                            sym_init: a.flag("sym_init"),
                        };
                        macro_rules! go {
                            ($d:ty) => {
                                if c.cache {
                                    explore(limits, gp.seed, symbolic, initial, &mut || solve::body::<$d, solve::CountingCache>(&c))
                                } else {
                                    explore(limits, gp.seed, symbolic, initial, &mut || solve::body::<$d, EmptyCache<St>>(&c))
                                }
                            };
                        }
                        let rep = match ddname.as_str() {
                            "lel" => go!(Mdd<St, { LAST_EXACT_LAYER }>),
                            "frontier" => go!(Mdd<St, { FRONTIER }>),
                            "pooled" => go!(Pooled<St>),
                            x => panic!("dd={}", x),
                        };
                        let mut case = a.0.clone();
                        case.insert("dd".into(), ddname.clone());
                        case.insert("cache".into(), cache.clone());
                        case.insert("fringe".into(), fringe.clone());
                        case.insert("width".into(), w.clone());
                        case.insert("mode".into(), mode.clone());
                        case.remove("inputs");
                        emit(&case, &shape.describe(), &rep);
                    }
                }
            }
        }
    }
}

/// pseudo-random initial scheduling choices (names s0, s1, ...: the k-th free choice of a run), used to start an
/// exploration from (or to probe with) a schedule that actually switches workers
#[cfg(feature = "sched")]
fn sched_presets(seed: u64) -> Vec<(String, i64)> {
    let mut r = Rng(seed ^ 0x5c4ed);
    // switch density varies with the seed so that the few allowed pre-emptions are spread over the run
    let den = [2u64, 4, 8, 16][(seed % 4) as usize];
    (0..240).map(|k| (format!("s{}", k), if r.below(den) == 0 { 1 + r.below(2) as i64 } else { 0 })).collect()
}

#[cfg(feature = "sched")]
fn par_case(a: &Args, shape: &Shape, fringe: &str, w: &str, th: &str) -> par::ParCase {
    par::ParCase {
        shape: shape.clone(),
        rub: if a.get("rub", "none") == "hslack" { Rub::HSlack } else { Rub::None },
        nodup: fringe == "nodup",
        width: w.parse().unwrap(),
        rev_rank: a.flag("rev"),
        threads: th.parse().unwrap(),
        threads_after: a.0.get("threads_after").map(|x| x.parse().unwrap()),
        max_preempt: a.num("preempt", 1) as u32,
        map_yield: a.flag("mapyield"),
        mode: a.get("mode", "plain"),
        warm: a.num("warm", 0) as usize,
        kmax: a.num("kmax", 30) as i64,
        props: a.list("props", ""),
        seq_steps: a.num("max_steps", 3000),
    }
}

#[cfg(feature = "sched")]
fn par_explore(c: &par::ParCase, ddname: &str, cache: &str, limits: &Limits, eseed: u64, symbolic: bool, initial: &[(String, i64)]) -> Report {
    macro_rules! go {
        ($d:ty) => {
            if cache == "1" {
                explore(limits, eseed, symbolic, initial, &mut || par::body::<$d, crate::solve::CountingCache>(c))
            } else {
                explore(limits, eseed, symbolic, initial, &mut || par::body::<$d, EmptyCache<St>>(c))
            }
        };
    }
    match ddname {
        "lel" => go!(Mdd<St, { LAST_EXACT_LAYER }>),
        "frontier" => go!(Mdd<St, { FRONTIER }>),
        "pooled" => go!(Pooled<St>),
        x => panic!("dd={}", x),
    }
}

#[cfg(feature = "sched")]
fn run_par(a: &Args, limits: &Limits, symbolic: bool, initial: &[(String, i64)]) {
    let gp = gen_params(a);
    let shape = Shape::generate(&gp);
    // eseed: seed of the first path's input values (default: the structure seed); schedinit: first path's schedule
    let eseed = a.num("eseed", gp.seed);
    let mut init: Vec<(String, i64)> = if a.0.contains_key("schedinit") { sched_presets(a.num("schedinit", 0)) } else { vec![] };
    for (k, v) in initial {
        init.retain(|(n, _)| n != k);
        init.push((k.clone(), *v));
    }
    for ddname in a.list("dd", "lel").iter() {
        for cache in a.list("cache", "0").iter() {
            for fringe in a.list("fringe", "simple").iter() {
                for w in a.list("width", "1").iter() {
                    for th in a.list("threads", "2").iter() {
                        let c = par_case(a, &shape, fringe, w, th);
                        let rep = par_explore(&c, ddname, cache, limits, eseed, symbolic, &init);
                        let mut case = a.0.clone();
                        case.insert("dd".into(), ddname.clone());
                        case.insert("cache".into(), cache.clone());
                        case.insert("fringe".into(), fringe.clone());
                        case.insert("width".into(), w.clone());
                        case.insert("threads".into(), th.clone());
                        case.remove("inputs");
                        emit(&case, &shape.describe(), &rep);
                    }
                }
            }
        }
    }
}

/// probe-directed selection for the scheduled runs: (structure seed, try) pairs on which ONE concrete run of the
/// parallel solver, under pseudo-random costs and a pseudo-random schedule, already violates an obligation
#[cfg(feature = "sched")]
fn find_dyn_par(a: &Args) {
    let (start, count, take, tries) = (a.num("start", 1), a.num("count", 300), a.num("take", 4), a.num("tries", 10));
    let mut gp = gen_params(a);
    let lim = Limits { max_paths: 1, max_secs: 5.0, max_violations: 1000 };
    let mut found = vec![];
    'seeds: for s in start..start + count {
        gp.seed = s;
        let shape = Shape::generate(&gp);
        let c = par_case(a, &shape, &a.get("fringe", "simple"), &a.get("width", "1"), &a.get("threads", "2"));
        for t in 0..tries {
            let e = s * 1000 + t;
            let rep = par_explore(&c, &a.get("dd", "lel"), &a.get("cache", "0"), &lim, e, false, &sched_presets(e));
            if !rep.violations.is_empty() {
                eprintln!("seed {} try {}: {}", s, t, rep.violations.iter().map(|v| v.label.clone()).collect::<Vec<_>>().join(" "));
                found.push(format!("{}:{}", s, e));
                if found.len() as u64 >= take {
                    break 'seeds;
                }
                break;
            }
        }
    }
    println!("{}", found.join(","));
}

fn run_cont(a: &Args, limits: &Limits, symbolic: bool, initial: &[(String, i64)]) {
    let kind = a.get("kind", "fringe");
    let seed0 = a.num("seed", 1);
    let count = a.num("count", 1);
    for seed in seed0..seed0 + count {
        let mut case = a.0.clone();
        case.insert("seed".into(), seed.to_string());
        case.insert("count".into(), "1".into());
        case.remove("inputs");
        let (rep, desc) = match kind.as_str() {
            "fringe" => {
                let ops = if a.num("fill", 0) > 0 && a.flag("repush") { cont::fringe_repush_ops(seed, a.num("fill", 0) as usize, a.num("states", 3) as u8, a.num("depths", 2) as usize) } else if a.num("fill", 0) > 0 { cont::fringe_fill_ops(seed, a.num("fill", 0) as usize, a.num("states", 3) as u8, a.num("depths", 2) as usize) } else { cont::fringe_ops(seed, a.num("len", 6) as usize, a.num("states", 2) as u8, a.num("depths", 2) as usize) };
                let nodup = a.get("fringe", "nodup") == "nodup";
                (explore(limits, seed, symbolic, initial, &mut || cont::fringe_body(nodup, &ops)), format!("{:?}", ops))
            }
            "cache" => {
                let ops = cont::cache_ops(seed, a.num("len", 5) as usize);
                (explore(limits, seed, symbolic, initial, &mut || cont::cache_body(&ops)), format!("{:?}", ops))
            }
            "dominance" => {
                let (nq, uv) = (a.num("len", 4) as usize, a.flag("use_value"));
                (explore(limits, seed, symbolic, initial, &mut || cont::dominance_body(seed, nq, uv)), format!("{} queries + 2 probes, use_value={}", nq, uv))
            }
            "domorder" => {
                let (nq, uv) = (a.num("len", 3) as usize, a.flag("use_value"));
                (explore(limits, seed, symbolic, initial, &mut || cont::dominance_order_body(seed, nq, uv)), format!("{} states recorded forwards / backwards, 2 probes, use_value={}", nq, uv))
            }
            #[cfg(feature = "sched")]
            "cacheconc" => {
                let (nt, nops, pre) = (a.num("threads", 2) as usize, a.num("ops", 1) as usize, a.num("preempt", 2) as u32);
                (explore(limits, seed, symbolic, initial, &mut || cont::cache_conc_body(nt, nops, pre, seed)), format!("{} threads x {} update+get on one key", nt, nops))
            }
            #[cfg(feature = "sched")]
            "domconc" => {
                let (nt, pre, uv) = (a.num("threads", 2) as usize, a.num("preempt", 2) as u32, a.flag("use_value"));
                (explore(limits, seed, symbolic, initial, &mut || cont::dominance_conc_body(nt, pre, uv)), format!("{} threads, one insertion each, 2 probes", nt))
            }
            x => panic!("kind={} not available in this build", x),
        };
        emit(&case, &desc, &rep);
    }
}

fn main() {
    let mut m = BTreeMap::new();
    for arg in std::env::args().skip(1) {
        if let Some((k, v)) = arg.split_once('=') {
            m.insert(k.to_string(), v.to_string());
        } else {
            panic!("arguments are key=value, got {}", arg);
        }
    }
    let a = Args(m);
    let limits = Limits { max_paths: a.num("max_paths", 2000), max_secs: a.num("max_secs", 60) as f64, max_violations: a.num("max_viol", 20) as usize };
    let initial = parse_inputs(&a.get("inputs", ""));
    // concrete=1: run once under the given inputs (replay / differential); the
    // native build can only run concretely
    let symbolic = cfg!(feature = "symx") && !a.flag("concrete");
    match a.get("kind", "dd").as_str() {
        "dd" => run_dd(&a, &limits, symbolic, &initial),
        "solve" => run_solve(&a, &limits, symbolic, &initial),
        "knap" => {
            for ddname in a.list("dd", "lel").iter() {
                for cache in a.list("cache", "0").iter() {
                    for dom in a.list("dom", "full").iter() {
                        for w in a.list("width", "2").iter() {
                            let c = knap::KnapCase { n: a.num("n", 4) as usize, seed: a.num("seed", 1), nsym: a.num("nsym", 4) as usize, cache: cache == "1", nodup: a.get("fringe", "simple") == "nodup", width: w.parse().unwrap(), dom: dom.clone(), props: a.list("props", "C10"), copies: a.num("copies", 1) as u8 };
                            macro_rules! go {
                                ($d:ty) => {
                                    if c.cache {
                                        explore(&limits, c.seed, symbolic, &initial, &mut || knap::body::<$d, SimpleCache<knap::KState>>(&c))
                                    } else {
                                        explore(&limits, c.seed, symbolic, &initial, &mut || knap::body::<$d, EmptyCache<knap::KState>>(&c))
                                    }
                                };
                            }
                            let rep = match ddname.as_str() {
                                "lel" => go!(Mdd<knap::KState, { LAST_EXACT_LAYER }>),
                                "frontier" => go!(Mdd<knap::KState, { FRONTIER }>),
                                "pooled" => go!(Pooled<knap::KState>),
                                x => panic!("dd={}", x),
                            };
                            let mut case = a.0.clone();
                            case.insert("dd".into(), ddname.clone());
                            case.insert("cache".into(), cache.clone());
                            case.insert("dom".into(), dom.clone());
                            case.insert("width".into(), w.clone());
                            case.remove("inputs");
                            emit(&case, "knapsack", &rep);
                        }
                    }
                }
            }
        }
        "fringe" | "cache" | "dominance" | "domorder" | "cacheconc" | "domconc" => run_cont(&a, &limits, symbolic, &initial),
        #[cfg(feature = "sched")]
        "par" => run_par(&a, &limits, symbolic, &initial),
        #[cfg(feature = "sched")]
        "finddynpar" => find_dyn_par(&a),
        "find" => {
            // list seeds start..start+count whose structure has all the wanted static features
            let wantf = a.list("features", "");
            let (start, count, take) = (a.num("start", 1), a.num("count", 1000), a.num("take", 8));
            let mut found = vec![];
            let mut gp = gen_params(&a);
            for s in start..start + count {
                gp.seed = s;
                let f = Shape::generate(&gp).features();
                if wantf.iter().all(|w| f.contains(w)) {
                    found.push(s.to_string());
                    if found.len() as u64 >= take {
                        break;
                    }
                }
            }
            println!("{}", found.join(","));
        }
        "finddynsolve" => {
            // seeds whose sequential solve (given dd / cache / fringe / width) shows all wanted notes in one concrete probe run
            let wantn = a.list("notes", "");
            let (start, count, take, tries) = (a.num("start", 1), a.num("count", 1000), a.num("take", 8), a.num("tries", 24));
            let mut found = vec![];
            let mut gp = gen_params(&a);
            let lim = Limits { max_paths: 1, max_secs: 5.0, max_violations: 1000 };
            for s in start..start + count {
                gp.seed = s;
                let c = solve::SolveCase { shape: Shape::generate(&gp), rub: if a.get("rub", "none") == "hslack" { Rub::HSlack } else { Rub::None }, cache: a.num("cache", 1) == 1, nodup: a.get("fringe", "simple") == "nodup", width: a.num("width", 1) as usize, rev_rank: false, mode: solve::Mode::Plain, warm: 0, props: vec!["C01".to_string(), "C02".to_string()], kmax: 40, sym_init: false };
                let mut hit = false;
                for t in 0..tries {
                    let rep = match a.get("dd", "lel").as_str() {
                        "frontier" if c.cache => explore(&lim, s * 1000 + t, false, &[], &mut || solve::body::<Mdd<St, { FRONTIER }>, solve::CountingCache>(&c)),
                        "pooled" if c.cache => explore(&lim, s * 1000 + t, false, &[], &mut || solve::body::<Pooled<St>, solve::CountingCache>(&c)),
                        "frontier" => explore(&lim, s * 1000 + t, false, &[], &mut || solve::body::<Mdd<St, { FRONTIER }>, EmptyCache<St>>(&c)),
                        "pooled" => explore(&lim, s * 1000 + t, false, &[], &mut || solve::body::<Pooled<St>, EmptyCache<St>>(&c)),
                        _ if c.cache => explore(&lim, s * 1000 + t, false, &[], &mut || solve::body::<Mdd<St, { LAST_EXACT_LAYER }>, solve::CountingCache>(&c)),
                        _ => explore(&lim, s * 1000 + t, false, &[], &mut || solve::body::<Mdd<St, { LAST_EXACT_LAYER }>, EmptyCache<St>>(&c)),
                    };
                    if wantn.iter().all(|w| if w == "VIOLATION" { !rep.violations.is_empty() } else { rep.notes.get(w).copied().unwrap_or(0) > 0 }) {
                        hit = true;
                        if wantn.iter().any(|w| w == "VIOLATION") {
                            eprintln!("seed {} try {}: {}", s, t, rep.violations.iter().map(|v| format!("{} {}", v.label, v.detail.chars().take(80).collect::<String>())).collect::<Vec<_>>().join(" | "));
                        }
                        break;
                    }
                }
                if hit {
                    found.push(s.to_string());
                    if found.len() as u64 >= take {
                        break;
                    }
                }
            }
            println!("{}", found.join(","));
        }
        "finddyn" => {
            // dynamic feature-directed sampling: seeds whose structure shows ALL the wanted notes in ONE concrete
            // run of the diagram-level body under some of `tries` pseudo-random cost vectors
            let wantn = a.list("notes", "");
            let (start, count, take, tries) = (a.num("start", 1), a.num("count", 1000), a.num("take", 8), a.num("tries", 24));
            let mut found = vec![];
            let mut gp = gen_params(&a);
            let lim = Limits { max_paths: 1, max_secs: 5.0, max_violations: 1000 };
            for s in start..start + count {
                gp.seed = s;
                let shape = Shape::generate(&gp);
                let c = dd::DdCase {
                    shape: shape.clone(),
                    rub: Rub::None,
                    comp: match a.get("comp", "relaxed").as_str() {
                        "restricted" => CompilationType::Restricted,
                        "exact" => CompilationType::Exact,
                        _ => CompilationType::Relaxed,
                    },
                    width: a.num("width", 2) as usize,
                    root: a.num("roots", 0) as usize,
                    sym_lb: false,
                    rev_rank: false,
                    history: a.num("hist", 0) as usize,
                    hist_seed: a.num("hist_seed", 0),
                    viz_all: false,
                    props: a.list("props", "C06,C08"),
                    hist_solver_like: a.flag("hist_sym"),
                    hist_width: a.num("hist_w", 0) as usize,
                };
                let mut hit = false;
                for t in 0..tries {
                    let rep = match a.get("dd", "frontier").as_str() {
                        "lel" => explore(&lim, s * 1000 + t, false, &[], &mut || dd::body::<Mdd<St, { LAST_EXACT_LAYER }>>(&c)),
                        "pooled" => explore(&lim, s * 1000 + t, false, &[], &mut || dd::body::<Pooled<St>>(&c)),
                        _ => explore(&lim, s * 1000 + t, false, &[], &mut || dd::body::<Mdd<St, { FRONTIER }>>(&c)),
                    };
                    if wantn.iter().all(|w| if w == "VIOLATION" { !rep.violations.is_empty() } else { rep.notes.get(w).copied().unwrap_or(0) > 0 }) {
                        hit = true;
                        if wantn.iter().any(|w| w == "VIOLATION") {
                            eprintln!("seed {} try {}: {}", s, t, rep.violations.iter().map(|v| v.label.clone()).collect::<Vec<_>>().join(" "));
                        }
                        break;
                    }
                }
                if hit {
                    found.push(s.to_string());
                    if found.len() as u64 >= take {
                        break;
                    }
                }
            }
            println!("{}", found.join(","));
        }
        "features" => {
            let f = Shape::generate(&gen_params(&a)).features();
            println!("{}", f.join(","));
        }
        x => panic!("unknown kind {}", x),
    }
}
