//! C20: as_graphviz is total and structurally faithful.  Runs concretely under
//! the model of the current path (the structure of the output depends on the
//! path only; numbers are printed from concrete values).
use crate::dd::Dd;
use crate::fam::*;
use ddo::*;
use std::collections::{HashMap, HashSet};
use symx_int::{note, oblige, observe, Cond, CostLike};

#[derive(Debug, Clone)]
struct NodeDecl {
    square: bool,
    state: Option<(u8, u32)>,
}
#[derive(Debug, Clone)]
struct EdgeDecl {
    from: usize,
    to: String,
    label: Option<(usize, i64, i64)>, // var, value, cost
}

struct Parsed {
    nodes: HashMap<usize, NodeDecl>,
    edges: Vec<EdgeDecl>,
    terminal: bool,
    clusters: Vec<Vec<usize>>,
}

fn fail(label: &str, msg: String) -> ! {
    panic!("SYMX-LABEL[C20:{}] {}", label, msg)
}

fn parse_state(label: &str) -> Option<(u8, u32)> {
    // "St { d: 0, m: 1 }\nval: ..."
    let a = label.find("St { d: ")?;
    let rest = &label[a + 8..];
    let comma = rest.find(',')?;
    let d: u8 = rest[..comma].trim().parse().ok()?;
    let m0 = rest.find("m: ")?;
    let rest2 = &rest[m0 + 3..];
    let end = rest2.find(' ')?;
    let m: u32 = rest2[..end].trim().parse().ok()?;
    Some((d, m))
}

fn parse(dot: &str) -> Parsed {
    if !dot.starts_with("digraph {\n") {
        fail("syntax", "output does not start with 'digraph {'".into());
    }
    if !dot.ends_with("}\n") {
        fail("syntax", "output does not end with '}'".into());
    }
    // balanced braces / brackets outside of quotes, balanced quotes
    let mut depth = 0i64;
    let mut brack = 0i64;
    let mut inq = false;
    let mut prev = ' ';
    for ch in dot.chars() {
        if ch == '"' && prev != '\\' {
            inq = !inq;
        } else if !inq {
            match ch {
                '{' => depth += 1,
                '}' => depth -= 1,
                '[' => brack += 1,
                ']' => brack -= 1,
                _ => {}
            }
            if depth < 0 || brack < 0 || brack > 1 {
                fail("syntax", "unbalanced braces or brackets".into());
            }
        }
        prev = ch;
    }
    if inq || depth != 0 || brack != 0 {
        fail("syntax", "unbalanced quotes, braces or brackets at end of output".into());
    }
    let mut p = Parsed { nodes: HashMap::new(), edges: vec![], terminal: false, clusters: vec![] };
    let mut in_cluster = false;
    for line in dot.lines() {
        let l = line.trim();
        if l.is_empty() || l == "digraph {" || l == "}" || l.starts_with("ranksep") {
            continue;
        }
        if l.starts_with("subgraph cluster_") {
            in_cluster = true;
            p.clusters.push(vec![]);
            continue;
        }
        if in_cluster {
            if l == "};" {
                in_cluster = false;
            } else if l.starts_with("style=") || l.starts_with("color=") {
            } else {
                for tok in l.split(';') {
                    let tok = tok.trim();
                    if tok.is_empty() {
                        continue;
                    }
                    match tok.parse::<usize>() {
                        Ok(id) => p.clusters.last_mut().unwrap().push(id),
                        Err(_) => fail("syntax", format!("cluster member '{}' is not a node id", tok)),
                    }
                }
            }
            continue;
        }
        if l.starts_with("terminal [") {
            if p.terminal {
                fail("terminal-once", "terminal node declared twice".into());
            }
            p.terminal = true;
            continue;
        }
        if let Some(arrow) = l.find(" -> ") {
            let from: usize = match l[..arrow].trim().parse() {
                Ok(x) => x,
                Err(_) => fail("syntax", format!("edge source is not a node id: {}", l)),
            };
            let rest = &l[arrow + 4..];
            let to_end = rest.find(|c: char| c == ' ' || c == ';' || c == '[').unwrap_or(rest.len());
            let to = rest[..to_end].to_string();
            let label = if let Some(a) = rest.find("label=\"(x") {
                // (x<var> = <val>)\ncost = <cost>
                let s = &rest[a + 9..];
                let eq = s.find(" = ");
                let close = s.find(")\\ncost = ");
                let endq = s.rfind('"');
                match (eq, close, endq) {
                    (Some(eq), Some(close), Some(endq)) if eq < close && close < endq => {
                        let var = s[..eq].parse::<usize>();
                        let val = s[eq + 3..close].parse::<i64>();
                        let cost = s[close + 10..endq].parse::<i64>();
                        match (var, val, cost) {
                            (Ok(a), Ok(b), Ok(c)) => Some((a, b, c)),
                            _ => fail("edge-label", format!("cannot read decision / cost in: {}", l)),
                        }
                    }
                    _ => fail("edge-label", format!("malformed edge label: {}", l)),
                }
            } else {
                None
            };
            if !l.ends_with("];") && !l.ends_with(';') {
                fail("syntax", format!("edge statement not terminated: {}", l));
            }
            p.edges.push(EdgeDecl { from, to, label });
            continue;
        }
        // node declaration
        if let Some(b) = l.find(" [") {
            let id: usize = match l[..b].trim().parse() {
                Ok(x) => x,
                Err(_) => fail("syntax", format!("unrecognised statement: {}", l)),
            };
            let square = l.contains("shape=square");
            let state = l.find("label=\"").and_then(|a| parse_state(&l[a + 7..]));
            if p.nodes.insert(id, NodeDecl { square, state }).is_some() {
                fail("node-once", format!("node {} declared more than once", id));
            }
            continue;
        }
        fail("syntax", format!("unrecognised statement: {}", l));
    }
    p
}

pub fn config(bits: u32) -> VizConfig {
    VizConfigBuilder::default()
        .show_value(bits & 1 != 0)
        .show_locb(bits & 2 != 0)
        .show_rub(bits & 4 != 0)
        .show_threshold(bits & 8 != 0)
        .show_deleted(bits & 16 != 0)
        .group_merged(bits & 32 != 0)
        .build()
        .unwrap()
}

pub fn check<D: Dd>(dd: &D, t: &Table, all: bool, has_value: bool) {
    // the reference rendering: everything shown
    let full = parse(&dd.viz(&config(63)));
    note("viz_checked");
    let combos: Vec<u32> = if all { (0..64).collect() } else { vec![0, 15, 16 + 5, 32 + 10, 48, 63] };
    for bits in combos {
        let dot = dd.viz(&config(bits));
        observe("dot", dot.bytes().fold(0i64, |a, b| a.wrapping_mul(131).wrapping_add(b as i64)));
        let p = parse(&dot);
        let show_deleted = bits & 16 != 0;
        if p.terminal != has_value {
            fail("terminal-iff", format!("terminal drawn = {} but the diagram {} a best value", p.terminal, if has_value { "has" } else { "has no" }));
        }
        if show_deleted {
            if p.nodes.len() != full.nodes.len() {
                fail("node-count", "number of nodes differs between two renderings that both show deleted nodes".into());
            }
        } else {
            for (id, _) in p.nodes.iter() {
                if !full.nodes.contains_key(id) {
                    fail("node-unknown", format!("node {} appears only when deleted nodes are hidden", id));
                }
            }
            for (id, n) in full.nodes.iter() {
                if !p.nodes.contains_key(id) && !n.square {
                    fail("node-hidden", format!("node {} is hidden although it is neither deleted nor merged", id));
                }
            }
        }
        let known: HashSet<usize> = full.nodes.keys().copied().collect();
        for e in p.edges.iter() {
            if !p.nodes.contains_key(&e.from) {
                fail("edge-endpoint", format!("edge drawn from undeclared node {}", e.from));
            }
            if e.to == "terminal" {
                if !p.terminal {
                    fail("edge-endpoint", "edge to an undeclared terminal".into());
                }
                continue;
            }
            let to: usize = match e.to.parse() {
                Ok(x) => x,
                Err(_) => fail("syntax", format!("edge target '{}'", e.to)),
            };
            let declared = p.nodes.contains_key(&to);
            let hidden_by_cfg = !show_deleted && known.contains(&to);
            if !declared && !hidden_by_cfg {
                fail("edge-endpoint", format!("edge to undeclared node {}", to));
            }
            if !p.nodes.contains_key(&e.from) && !(!show_deleted && known.contains(&e.from)) {
                fail("edge-endpoint", format!("edge from undeclared node {}", e.from));
            }
            // decision and cost of the corresponding arc
            let (var, val, cost) = match e.label {
                Some(x) => x,
                None => fail("edge-label", format!("edge {} -> {} has no decision/cost label", e.from, to)),
            };
            if var >= t.sh.n {
                fail("edge-label", format!("edge labelled with unknown variable {}", var));
            }
            let l = t.sh.layer_of_var(var);
            let (fs, ts) = (full.nodes.get(&e.from).and_then(|n| n.state), full.nodes.get(&to).and_then(|n| n.state));
            if let (Some((_, fm)), Some((_, tm))) = (fs, ts) {
                if val < 0 || !t.domain(l, fm).contains(&(val as usize)) {
                    fail("edge-decision", format!("edge {}->{} labelled x{}={} which is not in the domain of its source state", e.from, to, var, val));
                }
                let dst = t.trans(l, fm, val as usize);
                if dst & !tm != 0 {
                    fail("edge-decision", format!("edge {}->{} labelled x{}={} does not lead to (a relaxation of) its target state", e.from, to, var, val));
                }
                if !t.sh.bonus {
                    let real = t.arc_cost(l, fm, val as usize, dst).conc();
                    if real != cost {
                        fail("edge-cost", format!("edge {}->{} labelled cost {} but the arc costs {}", e.from, to, cost, real));
                    }
                }
            } else {
                fail("node-label", "node label does not show the state".into());
            }
        }
        // structural obligation: this rendering is well formed and faithful for every cost vector following this path
        oblige("C20:dot-faithful", Cond::TRUE);
        for cl in p.clusters.iter() {
            for id in cl {
                if !known.contains(id) {
                    fail("cluster-member", format!("cluster lists unknown node {}", id));
                }
                // naming an id inside a subgraph CREATES the node in DOT: a cluster may only list nodes that this very
                // rendering declares (a node hidden by the configuration must not come back through a cluster)
                if !p.nodes.contains_key(id) {
                    fail("cluster-member-hidden", format!("cluster lists node {} which this rendering does not declare (hidden by the configuration): DOT draws it anyway", id));
                }
            }
        }
    }
}
