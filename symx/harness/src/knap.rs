//! F3: knapsack with a dominance rule (C10 solver level, C01 with dominance).
//! Concrete weights / capacity (seeded), symbolic profits (negative allowed).
use crate::dd::Dd;
use crate::fam::Rng;
use crate::Cost;
use ddo::*;
use std::sync::Arc;
use symx_int::{note, oblige, observe, Cond, CostLike};

#[derive(Clone, Copy, Debug, PartialEq, Eq, Hash)]
pub struct KState {
    pub depth: u8,
    pub cap: u8,
}
pub struct Knap {
    pub n: usize,
    pub w: Vec<u8>,
    pub cap: u8,
    pub p: Vec<Cost>,
    pub copies: u8, // each item may be taken 0..=copies times (1 = classic 0/1 knapsack)
}
impl Knap {
    pub fn new(n: usize, seed: u64, nsym: usize) -> Knap {
        Knap::with_copies(n, seed, nsym, 1)
    }
    pub fn with_copies(n: usize, seed: u64, nsym: usize, copies: u8) -> Knap {
        let mut r = Rng(seed ^ 0x6b6e);
        let w: Vec<u8> = (0..n).map(|_| 1 + r.below(4) as u8).collect();
        let tot: u32 = w.iter().map(|x| *x as u32).sum();
        let cap = ((tot * copies as u32) / 2 + r.below(2) as u32).max(1).min(60) as u8;
        let p = (0..n).map(|i| if i < nsym { Cost::input(&format!("p{}", i), -50, 100) } else { Cost::lit(r.below(30) as i64 - 5) }).collect();
        Knap { n, w, cap, p, copies }
    }
    pub fn optimum(&self) -> Cost {
        let mut best: Option<Cost> = None;
        let base = self.copies as u32 + 1;
        let total = base.pow(self.n as u32);
        for code in 0..total {
            let mut c = code;
            let mut wt = 0u32;
            let mut v = Cost::lit(0);
            for i in 0..self.n {
                let q = c % base;
                c /= base;
                wt += q * self.w[i] as u32;
                for _ in 0..q {
                    v = v.plus(self.p[i]);
                }
            }
            if wt > self.cap as u32 {
                continue;
            }
            best = Some(match best {
                None => v,
                Some(b) => b.mx(v),
            });
        }
        best.unwrap()
    }
    pub fn value_of(&self, sol: &[Decision]) -> Result<Cost, String> {
        let mut seen = vec![false; self.n];
        let mut wt = 0u32;
        let mut v = Cost::lit(0);
        for d in sol {
            let i = d.variable.id();
            if i >= self.n || seen[i] {
                return Err(format!("bad or duplicate variable {}", i));
            }
            seen[i] = true;
            let q = d.value.conc();
            if q < 0 || q > self.copies as i64 {
                return Err(format!("decision value {}", q));
            }
            for _ in 0..q {
                wt += self.w[i] as u32;
                v = v.plus(self.p[i]);
            }
        }
        if seen.iter().any(|s| !s) {
            return Err("missing variable".into());
        }
        if wt > self.cap as u32 {
            return Err(format!("weight {} exceeds capacity {}", wt, self.cap));
        }
        Ok(v)
    }
}
impl Problem for Knap {
    type State = KState;
    fn nb_variables(&self) -> usize {
        self.n
    }
    fn initial_state(&self) -> KState {
        KState { depth: 0, cap: self.cap }
    }
    fn initial_value(&self) -> Cost {
        Cost::lit(0)
    }
    fn transition(&self, s: &KState, d: Decision) -> KState {
        let i = d.variable.id();
        KState { depth: s.depth + 1, cap: s.cap - (d.value.conc() as u8) * self.w[i] }
    }
    fn transition_cost(&self, _: &KState, _: &KState, d: Decision) -> Cost {
        let mut v = Cost::lit(0);
        for _ in 0..d.value.conc() {
            v = v.plus(self.p[d.variable.id()]);
        }
        v
    }
    fn next_variable(&self, depth: usize, _: &mut dyn Iterator<Item = &KState>) -> Option<Variable> {
        if depth < self.n {
            Some(Variable(depth))
        } else {
            None
        }
    }
    fn for_each_in_domain(&self, var: Variable, s: &KState, f: &mut dyn DecisionCallback) {
        for q in (0..=self.copies).rev() {
            if q * self.w[var.id()] <= s.cap {
                f.apply(Decision { variable: var, value: Cost::lit(q as i64) });
            }
        }
    }
}
impl Relaxation for Knap {
    type State = KState;
    fn merge(&self, states: &mut dyn Iterator<Item = &KState>) -> KState {
        note("merge");
        let v: Vec<KState> = states.copied().collect();
        KState { depth: v[0].depth, cap: v.iter().map(|s| s.cap).max().unwrap() }
    }
    fn relax(&self, _: &KState, _: &KState, _: &KState, _: Decision, cost: Cost) -> Cost {
        cost
    }
}
pub struct ByCap;
impl StateRanking for ByCap {
    type State = KState;
    fn compare(&self, a: &KState, b: &KState) -> std::cmp::Ordering {
        a.cap.cmp(&b.cap)
    }
}
/// more remaining capacity and more value dominates; `partial`: only even depths have a key
pub struct KpDom {
    pub partial: bool,
}
impl Dominance for KpDom {
    type State = KState;
    type Key = u8;
    fn get_key(&self, s: Arc<KState>) -> Option<u8> {
        if self.partial && s.depth % 2 == 1 {
            None
        } else {
            Some(s.depth)
        }
    }
    fn nb_dimensions(&self, _: &KState) -> usize {
        1
    }
    fn get_coordinate(&self, s: &KState, _: usize) -> Cost {
        Cost::lit(s.cap as i64)
    }
    fn use_value(&self) -> bool {
        true
    }
}

#[derive(Clone, Debug)]
pub struct KnapCase {
    pub n: usize,
    pub seed: u64,
    pub nsym: usize,
    pub cache: bool,
    pub nodup: bool,
    pub width: usize,
    pub dom: String, // off | full | partial
    pub props: Vec<String>,
    pub copies: u8,
}

pub fn body<D: Dd2, C: Cache<State = KState> + Default>(c: &KnapCase) {
    let k = Knap::with_copies(c.n, c.seed, c.nsym, c.copies.max(1));
    let opt = k.optimum();
    let ranking = ByCap;
    let fixed = FixedWidth(c.width.max(1));
    let nbu = NbUnassignedWidth(k.n);
    let width: &dyn WidthHeuristic<KState> = if c.width == 0 { &nbu } else { &fixed };
    let empty = EmptyDominanceChecker::default();
    let full = SimpleDominanceChecker::new(KpDom { partial: c.dom == "partial" }, k.n);
    let dominance: &dyn DominanceChecker<State = KState> = if c.dom == "off" { &empty } else { &full };
    let mut simple = SimpleFringe::new(MaxUB::new(&ranking));
    let mut nodup = NoDupFringe::new(MaxUB::new(&ranking));
    let fringe: &mut dyn Fringe<State = KState> = if c.nodup { &mut nodup } else { &mut simple };
    let cutoff = NoCutoff;
    let mut solver = SequentialSolver::<KState, D, C>::custom(&k, &k, &ranking, width, dominance, &cutoff, fringe);
    let comp = solver.maximize();
    observe("exact", comp.is_exact as i64);
    observe("value", solver.best_value().map(|v| v.conc()).unwrap_or(i64::MIN));
    if solver.explored() >= 2 {
        note("explored_ge2");
    }
    for tag in c.props.iter().filter(|p| ["C10", "C01", "C02"].contains(&p.as_str())) {
        if !comp.is_exact {
            panic!("SYMX-LABEL[{}:is-exact] uninterrupted run is not exact", tag);
        }
        let ok = match solver.best_value() {
            Some(v) => v.eq_c(opt),
            None => Cond::FALSE,
        };
        oblige(&format!("{}:opt-value-with-dominance", tag), ok);
        if let (Some(v), Some(sol)) = (solver.best_value(), solver.best_solution()) {
            match k.value_of(&sol) {
                Ok(rv) => oblige(&format!("{}:solution-value-with-dominance", tag), rv.eq_c(v)),
                Err(e) => panic!("SYMX-LABEL[{}:solution-feasible] {}", tag, e),
            }
        }
    }
}

/// diagram types over KState
pub trait Dd2: DecisionDiagram<State = KState> + Default {}
impl Dd2 for Mdd<KState, { LAST_EXACT_LAYER }> {}
impl Dd2 for Mdd<KState, { FRONTIER }> {}
impl Dd2 for Pooled<KState> {}
#[allow(dead_code)]
fn _unused<D: Dd>() {}
