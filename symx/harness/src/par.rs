//! Parallel solver under the deterministic scheduler (E2-sched): C03, C04,
//! C05(par), C02/C09/C14 schedule parts.  Real ParallelSolver, real threads,
//! serialised by the parking_lot / dashmap facades.
use crate::dd::Dd;
use crate::fam::*;
use crate::solve::{c02, obs, Outcome};
use crate::Cost;
use ddo::*;
use std::panic::{catch_unwind, resume_unwind, AssertUnwindSafe};
use symx_int::{note, oblige, Cond, CostLike};

#[derive(Clone, Debug)]
pub struct ParCase {
    pub shape: Shape,
    pub rub: Rub,
    pub nodup: bool,
    pub width: usize,
    pub rev_rank: bool,
    pub threads: usize,
    pub threads_after: Option<usize>,
    pub max_preempt: u32,
    pub map_yield: bool,
    pub mode: String, // plain | cutoff | warm
    pub warm: usize,
    pub kmax: i64,
    pub props: Vec<String>,
    pub seq_steps: u64,
}

fn opt_eq(v: Option<Cost>, o: Option<Cost>) -> Cond {
    match (v, o) {
        (Some(a), Some(b)) => a.eq_c(b),
        (None, None) => Cond::TRUE,
        _ => Cond::FALSE,
    }
}

pub fn body<D: Dd + Send, C: Cache<State = St> + Send + Sync + Default>(c: &ParCase) {
    let t = Table::new(&c.shape, c.rub.clone(), false);
    {
        let mut m = t.mon.lock().unwrap();
        m.check_protocol = false; // per-compilation monitor state is meaningless when compilations interleave
        m.budget = 50_000;
    }
    let all = enumerate(&t, 0, t.sh.root);
    let opt = max_of(all.iter().map(|p| t.init.plus(p.value)));
    let want = |p: &str| c.props.is_empty() || c.props.iter().any(|x| x == p);
    let ranking = ByMask(c.rev_rank);
    let fixed = FixedWidth(c.width.max(1));
    let nbu = NbUnassignedWidth(t.sh.n);
    let width: &(dyn WidthHeuristic<St> + Send + Sync) = if c.width == 0 { &nbu } else { &fixed };
    let dominance = EmptyDominanceChecker::default();
    let mut simple = SimpleFringe::new(MaxUB::new(&ranking));
    let mut nodup = NoDupFringe::new(MaxUB::new(&ranking));
    let fringe: &mut (dyn Fringe<State = St> + Send + Sync) = if c.nodup { &mut nodup } else { &mut simple };
    let cutoff = if c.mode == "cutoff" { PollCutoff::at(Cost::input("K", 1, c.kmax)) } else { PollCutoff::never() };

    let mut solver = ParallelSolver::<St, D, C>::custom(&t, &t, &ranking, width, &dominance, &cutoff, fringe, c.threads);
    let mut workers = c.threads;
    if let Some(k) = c.threads_after {
        solver = solver.with_nb_threads(k);
        workers = k;
    }
    let mut exempt: Option<Solution> = None;
    if c.mode == "warm" && !all.is_empty() {
        let q = &all[c.warm % all.len()];
        let vq = t.init.plus(q.value);
        let sq: Solution = q.decs.iter().filter(|(_, val)| *val < t.sh.d).map(|(var, val)| Decision { variable: Variable(*var), value: Cost::lit(*val as i64) }).collect();
        let mut sorted = sq.clone();
        sorted.sort_unstable_by_key(|d| d.variable.id());
        exempt = Some(sorted);
        solver.set_primal(vq, sq);
    }
    if c.mode == "warm" && all.len() >= 2 && want("C14") {
        // set_primal replaces the incumbent only when the new value is strictly greater (parallel solver)
        let mk = |q: &OPath| -> (Cost, Solution) {
            (t.init.plus(q.value), q.decs.iter().filter(|(_, val)| *val < t.sh.d).map(|(var, val)| Decision { variable: Variable(*var), value: Cost::lit(*val as i64) }).collect())
        };
        let (v1, s1) = mk(&all[c.warm % all.len()]);
        let (v2, s2) = mk(&all[(c.warm + 1) % all.len()]);
        let mut fr2 = SimpleFringe::new(MaxUB::new(&ranking));
        let never = PollCutoff::never();
        let mut p2 = ParallelSolver::<St, D, C>::custom(&t, &t, &ranking, width, &dominance, &never, &mut fr2, 1);
        p2.set_primal(v1, s1.clone());
        p2.set_primal(v2, s2.clone());
        let bv = p2.best_value().expect("value after set_primal");
        oblige("C14:set-primal-max", bv.eq_c(v1.mx(v2)));
        if s1 != s2 {
            let kept = p2.best_solution();
            let second_greater = v2.gt_c(v1);
            if kept == Some(s2.clone()) {
                oblige("C14:set-primal-strict", second_greater);
            } else if kept == Some(s1.clone()) {
                oblige("C14:set-primal-strict", second_greater.not());
            } else {
                panic!("SYMX-LABEL[C14:set-primal-solution] incumbent solution is neither of the two supplied");
            }
        }
    }
    symx_sched::begin(workers, c.max_preempt, c.seq_steps, c.map_yield);
    let r = catch_unwind(AssertUnwindSafe(|| solver.maximize()));
    let sum = symx_sched::end();
    let comp = match r {
        Ok(c) => c,
        Err(e) => resume_unwind(e),
    };
    if sum.switches > 0 {
        note("context_switch");
    }
    if sum.preemptions > 0 {
        note("preemption");
    }
    if sum.parks > 0 {
        note("condvar_wait");
    }
    let o = Outcome { exact: comp.is_exact, cvalue: comp.best_value, value: solver.best_value(), sol: solver.best_solution(), lb: solver.best_lower_bound(), ub: solver.best_upper_bound(), polls: cutoff.count(), fired: cutoff.has_fired(), explored: solver.explored() };
    obs("par", &o);
    if std::env::var("SYMX_TRACE").is_ok() {
        eprintln!("PAR outcome: exact={} value={:?} lb={:?} ub={:?} opt={:?} polls={} fired={} explored={} sched={:?}", o.exact, o.value, o.lb, o.ub, opt, o.polls, o.fired, o.explored, sum);
    }
    if o.explored >= 2 {
        note("explored_ge2");
    }
    let interrupted = !o.exact;
    if interrupted {
        note("interrupted");
    } else {
        note("not_interrupted");
    }
    if want("C04") {
        // maximize() returned: no deadlock, no crashed worker, within the step bound (all three abort the run otherwise)
        oblige("C04:returned", Cond::TRUE);
        if o.exact && c.mode != "warm" {
            // complete is declared only when nothing is open or in progress: then the value must be final
            oblige("C04:complete-means-final", opt_eq(o.value, opt));
        }
    }
    if c.mode != "cutoff" {
        for tag in ["C03", "C09", "C14", "C15"] {
            if want(tag) && (tag != "C14" || c.mode == "warm") {
                if !o.exact {
                    panic!("SYMX-LABEL[{}:is-exact] uninterrupted parallel maximize() does not report is_exact", tag);
                }
                oblige(&format!("{}:opt-value", tag), opt_eq(o.value, opt));
            }
        }
    }
    if c.mode == "cutoff" && want("C05") {
        match opt {
            Some(op) => {
                oblige("C05:lb-le-opt", o.lb.le_c(op));
                oblige("C05:opt-le-ub", op.le_c(o.ub));
                if o.exact {
                    oblige("C05:exact-is-opt", opt_eq(o.value, opt));
                }
            }
            None => {
                oblige("C05:infeasible-lb", o.lb.eq_c(Cost::cmin()));
            }
        }
        if let (Some(v), Some(sol)) = (o.value, o.sol.as_ref()) {
            oblige("C05:value-is-lb", v.eq_c(o.lb));
            match replay(&t, sol, None) {
                Ok((rv, _, _)) => oblige("C05:solution-value", rv.eq_c(v)),
                Err(e) => panic!("SYMX-LABEL[C05:solution-feasible] {}", e),
            }
        }
    }
    if want("C02") {
        c02(&t, &o, interrupted, exempt.as_ref());
    }
}
