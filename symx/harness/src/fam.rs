//! Model families (DESIGN.md 4.1), generic over the cost type.
//!
//! One table-driven family covers F1/F1r/F2/F4: a DP over *mask* states.
//! `next[l][b][d]` is a (possibly empty) set of base states; the exact
//! transition of a mask is the union over its members, the cost of a mask arc
//! is the max over the members that have the arc.  Because both are monotone
//! in the mask, `merge = union` is a sound relaxation by construction.
//! Options: depth embedded in the state or not (F2), destination bonus with a
//! non-identity `relax` (F1r), irrelevance masks / long arcs (F4), variable
//! order permutation, rough upper bound = h(state) + symbolic slack.
use crate::Cost;
use ddo::*;
use std::collections::HashMap;
use std::sync::Mutex;
use symx_int::{note, oblige, Cond, CostLike};

#[derive(Clone, Copy, Debug, PartialEq, Eq, Hash, PartialOrd, Ord)]
pub struct St {
    pub d: u8, // layer (0 when the family is depth-free)
    pub m: u32,
}

#[derive(Clone, Debug)]
pub struct Rng(pub u64);
impl Rng {
    pub fn next(&mut self) -> u64 {
        self.0 = self.0.wrapping_add(0x9E3779B97F4A7C15);
        let mut z = self.0;
        z = (z ^ (z >> 30)).wrapping_mul(0xBF58476D1CE4E5B9);
        z = (z ^ (z >> 27)).wrapping_mul(0x94D049BB133111EB);
        z ^ (z >> 31)
    }
    pub fn below(&mut self, n: u64) -> u64 {
        self.next() % n
    }
    pub fn chance(&mut self, num: u64, den: u64) -> bool {
        self.below(den) < num
    }
}

#[derive(Clone, Debug, PartialEq)]
pub enum Rub {
    None,
    HSlack,
}

/// concrete structure of an instance (no costs)
#[derive(Clone, Debug)]
pub struct Shape {
    pub n: usize,
    pub b: usize,
    pub d: usize,
    pub next: Vec<Vec<Vec<u32>>>, // [layer][base][dec] -> mask (0 = dead)
    pub root: u32,                // root mask
    pub order: Vec<usize>,        // variable decided at layer l
    pub depth_free: bool,
    pub impacted: Option<Vec<Vec<bool>>>, // [layer][base]
    /// state-wise irrelevance (C12 only: the union merge is NOT a sound relaxation here): [layer][mask] -> the whole
    /// mask is not impacted by the layer's variable (neutral default decision only, state unchanged, cost 0)
    pub skip: Option<Vec<Vec<bool>>>,
    pub bonus: bool,
    pub sym: Vec<Vec<Vec<bool>>>, // which costs are symbolic
    pub conc: Vec<Vec<Vec<i64>>>, // concrete value of the others
}

#[derive(Clone, Debug)]
pub struct GenParams {
    pub n: usize,
    pub b: usize,
    pub d: usize,
    pub seed: u64,
    pub depth_free: bool,
    pub long_arcs: bool,
    pub bonus: bool,
    pub perm: bool,
    pub nsym: usize, // max number of symbolic arc costs (usize::MAX = all)
    pub setnext: bool,
    pub statewise: bool,
}

impl Shape {
    pub fn generate(p: &GenParams) -> Shape {
        let mut r = Rng(p.seed.wrapping_mul(0x2545F4914F6CDD1D) ^ 0xabcdef);
        let mut next = vec![vec![vec![0u32; p.d]; p.b]; p.n];
        for l in 0..p.n {
            for b in 0..p.b {
                for d in 0..p.d {
                    let roll = r.below(100);
                    let m = if roll < 12 {
                        0
                    } else if p.setnext && roll < 30 {
                        // a pair
                        let x = r.below(p.b as u64) as u32;
                        let y = r.below(p.b as u64) as u32;
                        (1 << x) | (1 << y)
                    } else {
                        1 << (r.below(p.b as u64) as u32)
                    };
                    next[l][b][d] = m;
                }
            }
        }
        let root = if p.setnext && r.chance(1, 4) { 0b11 & ((1 << p.b) - 1) } else { 1 };
        let mut order: Vec<usize> = (0..p.n).collect();
        if p.perm {
            // own stream: the rest of the structure must not depend on `perm`
            let mut r2 = Rng(p.seed ^ 0x5eed_0bad);
            for i in (1..p.n).rev() {
                let j = r2.below(i as u64 + 1) as usize;
                order.swap(i, j);
            }
            if order.iter().enumerate().all(|(i, v)| i == *v) && p.n >= 2 {
                order.swap(0, p.n - 1);
            }
        }
        let impacted = if p.long_arcs {
            let mut v = vec![vec![true; p.b]; p.n];
            for l in 0..p.n {
                for b in 0..p.b {
                    v[l][b] = !r.chance(1, 3);
                }
            }
            Some(v)
        } else {
            None
        };
        // choose which arcs carry a symbolic cost
        let mut arcs = vec![];
        for l in 0..p.n {
            for b in 0..p.b {
                for d in 0..p.d {
                    if next[l][b][d] != 0 {
                        arcs.push((l, b, d));
                    }
                }
            }
        }
        for i in (1..arcs.len()).rev() {
            let j = r.below(i as u64 + 1) as usize;
            arcs.swap(i, j);
        }
        let mut sym = vec![vec![vec![false; p.d]; p.b]; p.n];
        for (k, (l, b, d)) in arcs.iter().enumerate() {
            if k < p.nsym {
                sym[*l][*b][*d] = true;
            }
        }
        let mut conc = vec![vec![vec![0i64; p.d]; p.b]; p.n];
        for l in 0..p.n {
            for b in 0..p.b {
                for d in 0..p.d {
                    conc[l][b][d] = r.below(21) as i64 - 8;
                }
            }
        }
        let skip = if p.statewise {
            // own stream: the rest of the structure must not depend on `statewise`
            let mut r3 = Rng(p.seed ^ 0x57a7e_715e);
            let mut v = vec![vec![false; 1 << p.b]; p.n];
            for l in 0..p.n {
                for m in 1..(1usize << p.b) {
                    v[l][m] = r3.chance(1, 3);
                }
            }
            Some(v)
        } else {
            None
        };
        Shape { n: p.n, b: p.b, d: p.d, next, root, order, depth_free: p.depth_free, impacted, skip, bonus: p.bonus, sym, conc }
    }
    /// reachable exact masks per layer (concrete, cost independent)
    pub fn reach(&self) -> Vec<Vec<u32>> {
        let mut layers = vec![vec![self.root]];
        for l in 0..self.n {
            let mut nx: Vec<u32> = vec![];
            for &m in layers[l].iter() {
                if self.skips(l, m) {
                    if !nx.contains(&m) {
                        nx.push(m);
                    }
                    continue;
                }
                for d in 0..=self.d {
                    let mut out = 0u32;
                    for b in 0..self.b {
                        if m & (1 << b) == 0 {
                            continue;
                        }
                        if self.is_impacted_base(l, b) {
                            if d < self.d {
                                out |= self.next[l][b][d];
                            }
                        } else if d == self.d {
                            out |= 1 << b;
                        }
                    }
                    if out != 0 && !nx.contains(&out) {
                        nx.push(out);
                    }
                }
            }
            layers.push(nx);
        }
        layers
    }
    /// static structural features used for feature-directed sampling
    pub fn features(&self) -> Vec<String> {
        let r = self.reach();
        let mut f = vec![];
        let maxw = r.iter().map(|l| l.len()).max().unwrap_or(0);
        f.push(format!("maxw{}", maxw.min(5)));
        if r[self.n].is_empty() {
            f.push("infeasible".into());
        }
        for l in 1..self.n {
            if r[l].len() < r[l - 1].len() * 1 && !r[l].is_empty() {
                f.push("narrowing".into());
                break;
            }
        }
        // dead end: a reachable state before the last layer without successor
        'outer: for l in 0..self.n {
            for &m in r[l].iter() {
                let mut any = false;
                for d in 0..=self.d {
                    for b in 0..self.b {
                        if m & (1 << b) != 0 {
                            if self.is_impacted_base(l, b) {
                                if d < self.d && self.next[l][b][d] != 0 {
                                    any = true;
                                }
                            } else if d == self.d {
                                any = true;
                            }
                        }
                    }
                }
                if !any {
                    f.push("dead_end".into());
                    break 'outer;
                }
            }
        }
        for l in 2..self.n {
            let v = &r[l];
            let mut hit = false;
            for &a in v.iter() {
                for &b in v.iter() {
                    for &c in v.iter() {
                        if a != b && a != c && b < c && (b | c) == a {
                            hit = true;
                        }
                    }
                }
            }
            if hit {
                f.push(format!("union_triple_l{}", l));
                f.push("union_triple".into());
            }
            // a sub-mask pair: merging {A,B} with A subset of B gives B back
            let mut sub = false;
            for &a in v.iter() {
                for &b in v.iter() {
                    if a != b && (a | b) == b {
                        sub = true;
                    }
                }
            }
            if sub {
                f.push("subset_pair".into());
            }
        }
        if self.impacted.is_some() {
            // a child of the root that is not impacted by the next variable (lingers in a pool)
            if self.n >= 2 && r[1].iter().any(|&m| (0..self.b).all(|b| m & (1 << b) == 0 || !self.is_impacted_base(1, b))) {
                f.push("lingering_root_child".into());
            }
            let mut long = false;
            for l in 1..self.n.saturating_sub(1) {
                for &m in r[l].iter() {
                    let skip = |ll: usize| (0..self.b).all(|b| m & (1 << b) == 0 || !self.is_impacted_base(ll, b));
                    if skip(l) && skip(l + 1) {
                        long = true;
                    }
                }
            }
            if long {
                f.push("arc_spanning_2".into());
            }
        }
        f.sort();
        f.dedup();
        f
    }
    pub fn layer_of_var(&self, v: usize) -> usize {
        self.order.iter().position(|x| *x == v).unwrap()
    }
    pub fn skips(&self, l: usize, m: u32) -> bool {
        match &self.skip {
            Some(v) => l < v.len() && (m as usize) < v[l].len() && v[l][m as usize],
            None => false,
        }
    }
    pub fn is_impacted_base(&self, l: usize, b: usize) -> bool {
        match &self.impacted {
            Some(v) => v[l][b],
            None => true,
        }
    }
    pub fn describe(&self) -> String {
        let mut s = format!("n={} B={} D={} root={:#b} order={:?} depth_free={} bonus={} next=", self.n, self.b, self.d, self.root, self.order, self.depth_free, self.bonus);
        for l in 0..self.n {
            s.push('[');
            for b in 0..self.b {
                s.push('(');
                for d in 0..self.d {
                    s.push_str(&format!("{:b}{}", self.next[l][b][d], if self.sym[l][b][d] { "s" } else { "" }));
                    if d + 1 < self.d {
                        s.push(',');
                    }
                }
                s.push(')');
            }
            s.push(']');
        }
        if let Some(sk) = &self.skip {
            let v: Vec<Vec<usize>> = sk.iter().map(|r| r.iter().enumerate().filter(|(_, x)| **x).map(|(m, _)| m).collect()).collect();
            s.push_str(&format!(" statewise_skip_masks={:?}", v));
        }
        if let Some(imp) = &self.impacted {
            s.push_str(&format!(" impacted={:?}", imp));
        }
        s
    }
}

pub const COST_RANGE: i64 = 1_000_000;
pub const SLACK_RANGE: i64 = 1_000;

/// monitor state shared by the callbacks (C12 protocol, C13 counts, budget)
#[derive(Default, Debug)]
pub struct Monitor {
    pub callbacks: u64,
    pub budget: u64,
    pub trans_memo: HashMap<(St, usize, i64), St>, // (src, var, val) -> dst
    pub last_var: Option<(usize, usize)>,           // (depth handed to next_variable, var returned)
    pub layer_states: Vec<St>,                       // states handed to last next_variable call
    pub expansions_in_layer: usize,
    pub expansions: Vec<(usize, usize)>, // (depth, count) per finished layer
    pub last_merge: Option<(St, Vec<St>)>,
    pub root_depth: usize,
    pub check_protocol: bool,
    pub polls: u64,
    /// Pooled semantics: only states impacted by the layer's variable are expanded
    pub expect_impacted: bool,
    /// depth the next call of next_variable must be handed (root depth + layers done), when the harness knows it
    pub expect_depth: Option<usize>,
}

pub struct Table {
    pub sh: Shape,
    pub cost: Vec<Vec<Vec<Cost>>>,
    pub bonus: Vec<Vec<Cost>>, // [layer 0..=n][base]; all zero unless sh.bonus
    pub init: Cost,
    pub rub: Rub,
    pub mon: Mutex<Monitor>,
    pub hmemo: Mutex<HashMap<(usize, u32), Option<Cost>>>,
}

impl Table {
    /// build the instance; declares the symbolic inputs
    pub fn new(sh: &Shape, rub: Rub, sym_init: bool) -> Table {
        let mut cost = vec![vec![vec![Cost::lit(0); sh.d]; sh.b]; sh.n];
        for l in 0..sh.n {
            for b in 0..sh.b {
                for d in 0..sh.d {
                    cost[l][b][d] = if sh.sym[l][b][d] { Cost::input(&format!("c_{}_{}_{}", l, b, d), -COST_RANGE, COST_RANGE) } else { Cost::lit(sh.conc[l][b][d]) };
                }
            }
        }
        let mut bonus = vec![vec![Cost::lit(0); sh.b]; sh.n + 1];
        if sh.bonus {
            for l in 1..=sh.n {
                for b in 0..sh.b {
                    // a few symbolic bonuses, the rest concrete
                    bonus[l][b] = if (l + b) % 2 == 0 { Cost::input(&format!("bonus_{}_{}", l, b), -1000, 1000) } else { Cost::lit(((l * 7 + b * 3) % 5) as i64 - 2) };
                }
            }
        }
        let init = if sym_init { Cost::input("init", -COST_RANGE, COST_RANGE) } else { Cost::lit(0) };
        Table { sh: sh.clone(), cost, bonus, init, rub, mon: Mutex::new(Monitor { budget: 20_000, check_protocol: true, ..Default::default() }), hmemo: Mutex::new(HashMap::new()) }
    }
    pub fn st(&self, l: usize, m: u32) -> St {
        St { d: if self.sh.depth_free { 0 } else { l as u8 }, m }
    }
    fn members(m: u32) -> impl Iterator<Item = usize> {
        (0..32).filter(move |b| m & (1 << b) != 0)
    }
    /// is the mask impacted by the variable of layer l
    pub fn impacted_mask(&self, l: usize, m: u32) -> bool {
        if self.sh.skip.is_some() {
            return !self.sh.skips(l, m);
        }
        Self::members(m).any(|b| self.sh.is_impacted_base(l, b))
    }
    /// decisions available for mask m at layer l: 0..D-1 regular, D = neutral default
    pub fn domain(&self, l: usize, m: u32) -> Vec<usize> {
        if self.sh.skips(l, m) {
            return vec![self.sh.d];
        }
        let mut out = vec![];
        for d in 0..self.sh.d {
            if Self::members(m).any(|b| self.sh.is_impacted_base(l, b) && self.sh.next[l][b][d] != 0) {
                out.push(d);
            }
        }
        if Self::members(m).any(|b| !self.sh.is_impacted_base(l, b)) {
            out.push(self.sh.d);
        }
        out
    }
    pub fn trans(&self, l: usize, m: u32, d: usize) -> u32 {
        if self.sh.skips(l, m) {
            return if d == self.sh.d { m } else { 0 };
        }
        let mut out = 0;
        for b in Self::members(m) {
            if self.sh.is_impacted_base(l, b) {
                if d < self.sh.d {
                    out |= self.sh.next[l][b][d];
                }
            } else if d == self.sh.d {
                out |= 1 << b;
            }
        }
        out
    }
    fn bonus_of(&self, l: usize, m: u32) -> Cost {
        // max over members (0 when the family has no bonus)
        if !self.sh.bonus || m == 0 {
            return Cost::lit(0);
        }
        let mut acc: Option<Cost> = None;
        for b in Self::members(m) {
            let x = self.bonus[l][b];
            acc = Some(match acc {
                None => x,
                Some(a) => a.mx(x),
            });
        }
        acc.unwrap()
    }
    /// cost of arc (l, m) --d--> dst ; `dst` only matters for the bonus
    pub fn arc_cost(&self, l: usize, m: u32, d: usize, dst: u32) -> Cost {
        if self.sh.skips(l, m) {
            assert!(d == self.sh.d, "arc_cost on an arc that does not exist (state-wise skip)");
            return Cost::lit(0);
        }
        let mut acc: Option<Cost> = None;
        for b in Self::members(m) {
            let c = if self.sh.is_impacted_base(l, b) {
                if d < self.sh.d && self.sh.next[l][b][d] != 0 {
                    Some(self.cost[l][b][d])
                } else {
                    None
                }
            } else if d == self.sh.d {
                Some(Cost::lit(0))
            } else {
                None
            };
            if let Some(c) = c {
                acc = Some(match acc {
                    None => c,
                    Some(a) => a.mx(c),
                });
            }
        }
        let base = acc.expect("arc_cost on an arc that does not exist");
        if self.sh.bonus {
            base.plus(self.bonus_of(l + 1, dst))
        } else {
            base
        }
    }
    /// value-to-go of mask m at layer l in the model's own (mask) system
    pub fn h(&self, l: usize, m: u32) -> Option<Cost> {
        if let Some(v) = self.hmemo.lock().unwrap().get(&(l, m)) {
            return *v;
        }
        let r = if m == 0 {
            None
        } else if l == self.sh.n {
            Some(Cost::lit(0))
        } else {
            let mut best: Option<Cost> = None;
            for d in self.domain(l, m) {
                let dst = self.trans(l, m, d);
                if let Some(t) = self.h(l + 1, dst) {
                    let v = self.arc_cost(l, m, d, dst).plus(t);
                    best = Some(match best {
                        None => v,
                        Some(b) => b.mx(v),
                    });
                }
            }
            best
        };
        self.hmemo.lock().unwrap().insert((l, m), r);
        r
    }
    fn tick(&self) {
        let mut m = self.mon.lock().unwrap();
        m.callbacks += 1;
        if m.callbacks > m.budget {
            drop(m);
            panic!("SYMX-BUDGET: more than the callback budget (non-termination)");
        }
    }
    pub fn reset_monitor(&self) {
        let mut m = self.mon.lock().unwrap();
        let (b, c, e) = (m.budget, m.check_protocol, m.expect_impacted);
        *m = Monitor { budget: b, check_protocol: c, expect_impacted: e, ..Default::default() };
    }
}

/// every complete path of the exact (mask) system from (l0, m0)
#[derive(Clone, Debug)]
pub struct OPath {
    pub decs: Vec<(usize, usize)>, // (variable, value) in layer order
    pub states: Vec<u32>,          // mask after each decision (len = decs.len())
    pub value: Cost,               // sum of arc costs (without any prefix value)
}
pub fn enumerate(t: &Table, l0: usize, m0: u32) -> Vec<OPath> {
    fn rec(t: &Table, l: usize, m: u32, cur: &mut OPath, out: &mut Vec<OPath>) {
        if l == t.sh.n {
            out.push(cur.clone());
            return;
        }
        for d in t.domain(l, m) {
            let dst = t.trans(l, m, d);
            if dst == 0 {
                continue;
            }
            let c = t.arc_cost(l, m, d, dst);
            let saved = cur.value;
            cur.decs.push((t.sh.order[l], d));
            cur.states.push(dst);
            cur.value = cur.value.plus(c);
            rec(t, l + 1, dst, cur, out);
            cur.value = saved;
            cur.decs.pop();
            cur.states.pop();
        }
    }
    let mut out = vec![];
    if m0 != 0 {
        rec(t, l0, m0, &mut OPath { decs: vec![], states: vec![], value: Cost::lit(0) }, &mut out);
    }
    out
}
pub fn max_of(vs: impl Iterator<Item = Cost>) -> Option<Cost> {
    let mut acc: Option<Cost> = None;
    for v in vs {
        acc = Some(match acc {
            None => v,
            Some(a) => a.mx(v),
        });
    }
    acc
}

/// replay an assignment (decisions in any order, at most one per variable)
/// from the problem root through the exact system.  Returns
/// Err(reason) if infeasible / malformed, else (value incl. init, final layer, final mask)
pub fn replay(t: &Table, decs: &[Decision], upto_layer: Option<usize>) -> Result<(Cost, usize, u32), String> {
    let mut by_var: HashMap<usize, usize> = HashMap::new();
    for d in decs {
        let v = d.variable.id();
        if v >= t.sh.n {
            return Err(format!("decision on unknown variable {}", v));
        }
        if by_var.insert(v, d.value.conc() as usize).is_some() {
            return Err(format!("two decisions for variable {}", v));
        }
    }
    let mut m = t.sh.root;
    let mut val = t.init;
    let mut l = 0;
    let stop = upto_layer.unwrap_or(t.sh.n);
    let mut used = 0;
    while l < stop {
        let var = t.sh.order[l];
        let d = match by_var.get(&var) {
            Some(d) => {
                used += 1;
                *d
            }
            None => {
                // default completion is only legal when the whole mask is not impacted
                if t.impacted_mask(l, m) {
                    return Err(format!("no decision for variable {} although state {:#b} is impacted", var, m));
                }
                t.sh.d
            }
        };
        if !t.domain(l, m).contains(&d) {
            return Err(format!("decision x{}={} not in the domain at state {:#b} (layer {})", var, d, m, l));
        }
        let dst = t.trans(l, m, d);
        if dst == 0 {
            return Err(format!("dead transition at layer {}", l));
        }
        val = val.plus(t.arc_cost(l, m, d, dst));
        m = dst;
        l += 1;
    }
    if used != by_var.len() {
        return Err("decisions on variables beyond the replayed depth".to_string());
    }
    Ok((val, l, m))
}

// ------------------------------------------------------------------ ddo traits
impl Problem for Table {
    type State = St;
    fn nb_variables(&self) -> usize {
        self.sh.n
    }
    fn initial_state(&self) -> St {
        self.st(0, self.sh.root)
    }
    fn initial_value(&self) -> Cost {
        self.init
    }
    fn transition(&self, s: &St, dec: Decision) -> St {
        self.tick();
        let l = self.sh.layer_of_var(dec.variable.id());
        let d = dec.value.conc() as usize;
        let dst = self.st(l + 1, self.trans(l, s.m, d));
        let mut mon = self.mon.lock().unwrap();
        if mon.check_protocol {
            if !self.sh.depth_free && s.d as usize != l {
                drop(mon);
                panic!("SYMX-LABEL[C12:transition-layer] transition on variable of layer {} from a state of layer {}", l, s.d);
            }
            mon.trans_memo.insert((*s, dec.variable.id(), dec.value.conc()), dst);
        }
        dst
    }
    fn transition_cost(&self, s: &St, dst: &St, dec: Decision) -> Cost {
        self.tick();
        let l = self.sh.layer_of_var(dec.variable.id());
        let d = dec.value.conc() as usize;
        {
            let mon = self.mon.lock().unwrap();
            if mon.check_protocol {
                let ok_dom = self.domain(l, s.m).contains(&d);
                let memo = mon.trans_memo.get(&(*s, dec.variable.id(), dec.value.conc())).copied();
                drop(mon);
                if !ok_dom {
                    panic!("SYMX-LABEL[C12:cost-domain] transition_cost with a decision outside the domain");
                }
                if memo != Some(*dst) {
                    panic!("SYMX-LABEL[C12:cost-dst] transition_cost(src, dst, d) with dst != transition(src, d)");
                }
            }
        }
        self.arc_cost(l, s.m, d, dst.m)
    }
    fn next_variable(&self, depth: usize, next_layer: &mut dyn Iterator<Item = &St>) -> Option<Variable> {
        self.tick();
        let states: Vec<St> = next_layer.copied().collect();
        let mut mon = self.mon.lock().unwrap();
        if mon.last_var.is_some() {
            let (d, _) = mon.last_var.unwrap();
            let c = mon.expansions_in_layer;
            mon.expansions.push((d, c));
        }
        mon.expansions_in_layer = 0;
        if mon.check_protocol {
            if let Some(e) = mon.expect_depth {
                if e != depth {
                    drop(mon);
                    panic!("SYMX-LABEL[C12:nextvar-depth] next_variable handed depth {} but the layer is {} layers below the problem root", depth, e);
                }
                mon.expect_depth = Some(e + 1);
            }
        }
        let r = if depth < self.sh.n { Some(Variable(self.sh.order[depth])) } else { None };
        mon.last_var = r.map(|v| (depth, v.id()));
        if mon.check_protocol && !self.sh.depth_free {
            for s in states.iter() {
                if s.d as usize != depth {
                    let sd = s.d;
                    drop(mon);
                    panic!("SYMX-LABEL[C12:nextvar-depth] next_variable(depth={}) handed a state of layer {}", depth, sd);
                }
            }
        }
        mon.layer_states = states;
        r
    }
    fn for_each_in_domain(&self, var: Variable, s: &St, f: &mut dyn DecisionCallback) {
        self.tick();
        let l = self.sh.layer_of_var(var.id());
        {
            let mut mon = self.mon.lock().unwrap();
            mon.expansions_in_layer += 1;
            if mon.check_protocol {
                let lv = mon.last_var;
                drop(mon);
                match lv {
                    Some((_, v)) if v == var.id() => {}
                    _ => panic!("SYMX-LABEL[C12:domain-var] for_each_in_domain for a variable other than the one next_variable selected"),
                }
                if !self.sh.depth_free && s.d as usize != l {
                    panic!("SYMX-LABEL[C12:domain-layer] for_each_in_domain on a state of another layer");
                }
                if self.mon.lock().unwrap().expect_impacted && !self.impacted_mask(l, s.m) {
                    panic!("SYMX-LABEL[C12:domain-not-impacted] pooled diagram enumerates the domain of a variable for a state that is not impacted by it (not in that layer)");
                }
            }
        }
        for d in self.domain(l, s.m) {
            f.apply(Decision { variable: var, value: Cost::lit(d as i64) });
        }
    }
    fn is_impacted_by(&self, var: Variable, s: &St) -> bool {
        let l = self.sh.layer_of_var(var.id());
        self.impacted_mask(l, s.m)
    }
}

impl Relaxation for Table {
    type State = St;
    fn merge(&self, states: &mut dyn Iterator<Item = &St>) -> St {
        self.tick();
        let v: Vec<St> = states.copied().collect();
        note("merge");
        let mut m = 0;
        for s in v.iter() {
            m |= s.m;
        }
        let r = St { d: v[0].d, m };
        let mut mon = self.mon.lock().unwrap();
        if mon.layer_states.contains(&r) && !v.contains(&r) {
            note("merge_equals_other_layer_state");
        }
        if v.contains(&r) {
            note("merge_equals_member");
        }
        if mon.check_protocol {
            let bad = v.len() < 2 || v.iter().any(|s| s.d != v[0].d);
            mon.last_merge = Some((r, v));
            if bad {
                drop(mon);
                panic!("SYMX-LABEL[C12:merge-set] merge over fewer than two states or over states of different layers");
            }
        }
        r
    }
    fn relax(&self, src: &St, dst: &St, merged: &St, dec: Decision, cost: Cost) -> Cost {
        self.tick();
        let l = self.sh.layer_of_var(dec.variable.id());
        let d = dec.value.conc() as usize;
        {
            let mon = self.mon.lock().unwrap();
            if mon.check_protocol {
                let memo = mon.trans_memo.get(&(*src, dec.variable.id(), dec.value.conc())).copied();
                let lm = mon.last_merge.clone();
                drop(mon);
                if !self.domain(l, src.m).contains(&d) {
                    panic!("SYMX-LABEL[C12:relax-domain] relax with a decision outside the domain of src");
                }
                if memo != Some(*dst) {
                    panic!("SYMX-LABEL[C12:relax-dst] relax(src, dst, ..) with dst != transition(src, d)");
                }
                match lm {
                    Some((m, set)) if m == *merged && set.contains(dst) => {}
                    _ => panic!("SYMX-LABEL[C12:relax-merged] relax called with a merged state that is not the last merge result over a set containing dst"),
                }
                // cost must be the current cost of that arc
                let real = self.arc_cost(l, src.m, d, dst.m);
                oblige("C12:relax-cost", cost.eq_c(real));
            }
        }
        if self.sh.bonus {
            // cost - bonus(dst) + bonus(merged)  (>= cost since dst is a subset of merged)
            cost.minus(self.bonus_of(l + 1, dst.m)).plus(self.bonus_of(l + 1, merged.m))
        } else {
            cost
        }
    }
    fn fast_upper_bound(&self, s: &St) -> Cost {
        match self.rub {
            Rub::None => Cost::cmax(),
            Rub::HSlack => {
                // the layer of a depth-free state is the one being expanded
                let l = if self.sh.depth_free { self.mon.lock().unwrap().last_var.map(|x| x.0).unwrap_or(0) } else { s.d as usize };
                match self.h(l, s.m) {
                    Some(h) => h.plus(Cost::input(&format!("slack_{}_{}", l, s.m), 0, SLACK_RANGE)),
                    None => Cost::input(&format!("deadrub_{}_{}", l, s.m), -COST_RANGE, COST_RANGE),
                }
            }
        }
    }
}

pub struct ByMask(pub bool);
impl StateRanking for ByMask {
    type State = St;
    fn compare(&self, a: &St, b: &St) -> std::cmp::Ordering {
        let o = a.m.cmp(&b.m);
        if self.0 {
            o.reverse()
        } else {
            o
        }
    }
}

/// cutoff that starts answering "stop" at poll number K (1-based); K symbolic.
/// Once it has fired it keeps answering "stop" (like a time budget).
pub struct PollCutoff {
    pub k: Option<Cost>,
    pub polls: Mutex<u64>,
    pub fired: Mutex<bool>,
}
impl PollCutoff {
    pub fn never() -> Self {
        PollCutoff { k: None, polls: Mutex::new(0), fired: Mutex::new(false) }
    }
    pub fn at(k: Cost) -> Self {
        PollCutoff { k: Some(k), polls: Mutex::new(0), fired: Mutex::new(false) }
    }
    pub fn count(&self) -> u64 {
        *self.polls.lock().unwrap()
    }
    pub fn has_fired(&self) -> bool {
        *self.fired.lock().unwrap()
    }
}
impl Cutoff for PollCutoff {
    fn must_stop(&self) -> bool {
        let mut p = self.polls.lock().unwrap();
        *p += 1;
        let n = *p;
        drop(p);
        if *self.fired.lock().unwrap() {
            return true;
        }
        match self.k {
            None => false,
            Some(k) => {
                let f = Cost::lit(n as i64) >= k;
                if f {
                    *self.fired.lock().unwrap() = true;
                }
                f
            }
        }
    }
}

#[allow(dead_code)]
pub fn cond_all(cs: impl Iterator<Item = Cond>) -> Cond {
    let mut acc = Cond::TRUE;
    for c in cs {
        acc = acc.and(c);
    }
    acc
}
