#!/bin/bash
# dev helper: prun.sh <binary> "<seed list>" args...   runs one process per seed (separate output files), summarises
B=$1; SEEDS=$2; shift 2
D=$(mktemp -d /tmp/prun.XXXX)
PIDS=""
for s in $SEEDS; do timeout 300 $B seed=$s "$@" > $D/$s.out 2>/dev/null & PIDS="$PIDS $!"; done
wait $PIDS
cat $D/*.out | python3 /verif/symx/summ.py 2>&1 | tail -${TAIL:-7} | cut -c1-700
rm -rf $D
