//! Generational depth-first exploration of all feasible paths of a harness
//! body, with an SMT solver (z3 or cvc5 over a pipe) deciding feasibility of
//! every not-yet-taken branch alternative and discharging the obligations of
//! every path (`path-condition AND NOT phi` must be UNSAT).
use crate::ctx::{self, Branch, Oblig};
use crate::term::TermId;
use std::collections::BTreeMap;
use std::io::{BufRead, BufReader, Write};
use std::panic::{catch_unwind, AssertUnwindSafe};
use std::process::{Child, ChildStdin, ChildStdout, Command, Stdio};
use std::sync::Mutex;
use std::time::Instant;

#[derive(Clone, Debug)]
pub struct Limits {
    pub max_paths: u64,
    pub max_secs: f64,
    pub max_violations: usize,
}

#[derive(Clone, Debug)]
pub struct Violation {
    pub kind: String, // obligation | panic | nontermination | concrete
    pub label: String,
    pub detail: String,
    pub inputs: Vec<(String, i64)>,
    pub path: u64,
}

#[derive(Clone, Debug, Default)]
pub struct Report {
    pub paths: u64,
    pub complete: bool,
    pub branches: u64,
    pub max_depth: usize,
    pub queries: u64,
    pub sat: u64,
    pub unsat: u64,
    pub unknown: u64,
    pub free_alts: u64,
    pub obligations: u64,
    pub discharged_solver: u64,
    pub discharged_concrete: u64,
    pub oblig_queries: u64,
    pub solver_secs: f64,
    pub wall_secs: f64,
    pub divergences: u64,
    pub refused: Vec<String>,
    pub solver_errors: Vec<String>,
    pub violations: Vec<Violation>,
    pub notes: BTreeMap<String, u64>,
    pub paths_with_note: BTreeMap<String, u64>,
    pub n_inputs: usize,
    pub n_terms: usize,
    pub inputs_decl: Vec<(String, i64, i64)>,
    pub witnesses: Vec<Vec<(String, i64)>>,
    pub labels: BTreeMap<String, u64>,
    pub digest: u64,
    pub observed: u64,
    pub selfcheck_terms: u64,
    pub unsat_by_core: u64,
}

// ---------------------------------------------------------------- panic capture
static LAST_PANIC: Mutex<Option<String>> = Mutex::new(None);
static HOOK: std::sync::Once = std::sync::Once::new();
pub static QUIET: std::sync::atomic::AtomicBool = std::sync::atomic::AtomicBool::new(false);

pub fn install_panic_hook() {
    HOOK.call_once(|| {
        let prev = std::panic::take_hook();
        std::panic::set_hook(Box::new(move |info| {
            let msg = if let Some(s) = info.payload().downcast_ref::<&str>() {
                s.to_string()
            } else if let Some(s) = info.payload().downcast_ref::<String>() {
                s.clone()
            } else {
                "panic".to_string()
            };
            let loc = info.location().map(|l| format!("{}:{}", l.file(), l.line())).unwrap_or_default();
            let mut g = match LAST_PANIC.lock() {
                Ok(g) => g,
                Err(p) => p.into_inner(),
            };
            // keep the FIRST panic of a run (later ones are consequences)
            if g.is_none() {
                *g = Some(format!("{} @ {}", msg, loc));
            }
            drop(g);
            if !QUIET.load(std::sync::atomic::Ordering::Relaxed) {
                prev(info);
            }
        }));
    });
}
pub fn take_last_panic() -> Option<String> {
    let mut g = match LAST_PANIC.lock() {
        Ok(g) => g,
        Err(p) => p.into_inner(),
    };
    g.take()
}

// ---------------------------------------------------------------- solver pipe
pub struct Solver {
    child: Child,
    sin: ChildStdin,
    sout: BufReader<ChildStdout>,
    defined: Vec<bool>,
    declared: usize,
    pub errors: Vec<String>,
    pub name: String,
    log: Option<std::fs::File>,
    pub cores: bool,
    proxied: Vec<bool>,
}

impl Solver {
    pub fn spawn() -> Solver {
        let which = std::env::var("SYMX_SOLVER").unwrap_or_else(|_| "z3".to_string());
        let mut cmd = if which == "cvc5" {
            let mut c = Command::new("cvc5");
            c.args(["--lang", "smt2", "--incremental", "--produce-models", "--tlimit-per", "20000"]);
            c
        } else {
            let mut c = Command::new(std::env::var("SYMX_Z3").unwrap_or_else(|_| "/usr/bin/z3".to_string()));
            c.args(["-in", "-smt2", "-t:20000"]);
            c
        };
        let mut child = cmd.stdin(Stdio::piped()).stdout(Stdio::piped()).stderr(Stdio::null()).spawn().expect("cannot start SMT solver");
        let sin = child.stdin.take().unwrap();
        let sout = BufReader::new(child.stdout.take().unwrap());
        let log = std::env::var("SYMX_SMTLOG").ok().map(|p| std::fs::File::create(p).unwrap());
        let mut s = Solver { child, sin, sout, defined: vec![], declared: 0, errors: vec![], name: which.clone(), log, cores: false, proxied: vec![] };
        if which == "cvc5" {
            s.send("(set-logic QF_LIA)");
        } else {
            s.send("(set-option :produce-models true)");
            s.send("(set-option :produce-unsat-cores true)");
            s.cores = true;
        }
        s
    }
    fn send(&mut self, line: &str) {
        if let Some(l) = self.log.as_mut() {
            let _ = writeln!(l, "{}", line);
        }
        self.sin.write_all(line.as_bytes()).unwrap();
        self.sin.write_all(b"\n").unwrap();
    }
    fn read_line(&mut self) -> String {
        let mut s = String::new();
        self.sin.flush().unwrap();
        let n = self.sout.read_line(&mut s).unwrap();
        if n == 0 {
            return "(error \"solver closed the pipe\")".to_string();
        }
        s.trim().to_string()
    }
    fn read_sexp(&mut self) -> String {
        let mut out = String::new();
        let mut depth: i64 = 0;
        let mut seen = false;
        loop {
            let l = self.read_line();
            for ch in l.chars() {
                if ch == '(' {
                    depth += 1;
                    seen = true;
                } else if ch == ')' {
                    depth -= 1;
                }
            }
            out.push_str(&l);
            out.push(' ');
            if (seen && depth <= 0) || l.starts_with("(error") || (!seen && !l.is_empty()) {
                break;
            }
        }
        out
    }
    /// declare inputs / define terms that the solver has not seen yet
    fn sync(&mut self, c: &ctx::Ctx, roots: &[TermId]) {
        while self.declared < c.inputs.len() {
            let i = self.declared;
            let inp = &c.inputs[i];
            let lit = |v: i64| if v < 0 { format!("(- {})", -(v as i128)) } else { format!("{}", v) };
            self.send(&format!("(declare-const x{} Int)", i));
            self.send(&format!("(assert (and (<= {} x{}) (<= x{} {})))", lit(inp.lo), i, i, lit(inp.hi)));
            self.declared += 1;
        }
        if self.defined.len() < c.store.len() {
            self.defined.resize(c.store.len(), false);
        }
        // iterative post-order
        let mut stack: Vec<(TermId, bool)> = roots.iter().map(|r| (*r, false)).collect();
        while let Some((t, expanded)) = stack.pop() {
            if self.defined[t as usize] || !c.store.needs_def(t) {
                continue;
            }
            if expanded {
                let d = c.store.definition(t);
                self.send(&d);
                self.defined[t as usize] = true;
            } else {
                stack.push((t, true));
                for ch in c.store.children(t) {
                    if !self.defined[ch as usize] && c.store.needs_def(ch) {
                        stack.push((ch, false));
                    }
                }
            }
        }
    }
    /// Some(true)=sat Some(false)=unsat None=unknown/error
    fn check(&mut self, c: &ctx::Ctx, lits: &[TermId]) -> Option<bool> {
        self.sync(c, lits);
        let mut q = String::with_capacity(16 + lits.len() * 8);
        q.push_str("(check-sat-assuming (");
        for l in lits {
            if self.cores && c.store.needs_def(*l) {
                // named proxy literal (p => t): lets the solver report UNSAT cores by name
                if self.proxied.len() <= *l as usize {
                    self.proxied.resize(c.store.len().max(*l as usize + 1), false);
                }
                if !self.proxied[*l as usize] {
                    self.send(&format!("(declare-const p{} Bool)", l));
                    self.send(&format!("(assert (=> p{} t{}))", l, l));
                    self.proxied[*l as usize] = true;
                }
                q.push_str(&format!("p{}", l));
            } else {
                q.push_str(&c.store.rf(*l));
            }
            q.push(' ');
        }
        q.push_str("))");
        self.send(&q);
        let r = self.read_line();
        match r.as_str() {
            "sat" => Some(true),
            "unsat" => Some(false),
            other => {
                self.errors.push(other.to_string());
                None
            }
        }
    }
    /// after an UNSAT answer: the subset of the assumption literals that is already contradictory
    fn unsat_core(&mut self) -> Option<Vec<TermId>> {
        if !self.cores {
            return None;
        }
        self.send("(get-unsat-core)");
        let s = self.read_sexp();
        if s.contains("(error") {
            self.errors.push(s);
            return None;
        }
        let mut out = vec![];
        for tok in s.replace('(', " ").replace(')', " ").split_whitespace() {
            if let Some(n) = tok.strip_prefix('p') {
                match n.parse::<u32>() {
                    Ok(id) => out.push(id),
                    Err(_) => return None,
                }
            } else {
                return None; // something we do not understand: do not cache
            }
        }
        Some(out)
    }
    fn model(&mut self, c: &ctx::Ctx) -> Option<Vec<i64>> {
        if c.inputs.is_empty() {
            return Some(vec![]);
        }
        let mut q = String::from("(get-value (");
        for i in 0..c.inputs.len() {
            q.push_str(&format!("x{} ", i));
        }
        q.push_str("))");
        self.send(&q);
        let s = self.read_sexp();
        if s.contains("(error") {
            self.errors.push(s);
            return None;
        }
        // parse "((x0 5) (x1 (- 3)) ...)"
        let mut vals = vec![0i64; c.inputs.len()];
        let toks: Vec<String> = s.replace('(', " ( ").replace(')', " ) ").split_whitespace().map(|x| x.to_string()).collect();
        let mut i = 0;
        let mut found = 0;
        while i < toks.len() {
            if toks[i].starts_with('x') && toks[i][1..].chars().all(|ch| ch.is_ascii_digit()) && toks[i].len() > 1 {
                let idx: usize = toks[i][1..].parse().unwrap();
                // value follows
                let (v, adv) = if toks[i + 1] == "(" && toks[i + 2] == "-" {
                    (-(toks[i + 3].parse::<i128>().unwrap()), 5)
                } else {
                    (toks[i + 1].parse::<i128>().unwrap(), 2)
                };
                if idx < vals.len() {
                    vals[idx] = v as i64;
                    found += 1;
                }
                i += adv;
            } else {
                i += 1;
            }
        }
        if found != c.inputs.len() {
            self.errors.push(format!("model parse: {} of {} values in {}", found, c.inputs.len(), s));
            return None;
        }
        Some(vals)
    }
}
impl Drop for Solver {
    fn drop(&mut self) {
        let _ = self.sin.write_all(b"(exit)\n");
        let _ = self.child.kill();
        let _ = self.child.wait();
    }
}

// ---------------------------------------------------------------- exploration
struct Item {
    bound: usize,
    model: Vec<i64>,
    expect: Vec<TermId>,
}

fn named_model(c: &ctx::Ctx, model: &[i64]) -> Vec<(String, i64)> {
    c.inputs.iter().enumerate().map(|(i, inp)| (inp.name.clone(), model.get(i).copied().unwrap_or(0))).collect()
}

/// Explore every feasible path of `body`.  `symbolic=false` runs the body once,
/// concretely, under `initial` (used for replay and differential runs).
pub fn explore(limits: &Limits, seed: u64, symbolic: bool, initial: &[(String, i64)], body: &mut dyn FnMut()) -> Report {
    install_panic_hook();
    let start = Instant::now();
    let mut rep = Report::default();
    {
        let mut c = ctx::lock();
        c.reset(symbolic, seed);
    }
    let mut solver = if symbolic { Some(Solver::spawn()) } else { None };
    let mut stack: Vec<Item> = vec![Item { bound: 0, model: vec![], expect: vec![] }];
    let mut first = true;
    rep.complete = true;
    let mut cores: std::collections::HashMap<TermId, Vec<Vec<TermId>>> = std::collections::HashMap::new();

    while let Some(item) = stack.pop() {
        if rep.paths >= limits.max_paths || start.elapsed().as_secs_f64() > limits.max_secs || rep.violations.len() >= limits.max_violations {
            rep.complete = false;
            break;
        }
        // ---- run
        {
            let mut c = ctx::lock();
            c.begin_run(&item.model);
            if first {
                first = false;
                // initial values are given by name: pre-declare is impossible
                // (ranges unknown), so stash them for `input()` through the model
                // after declaration; handled below via PRESET.
                c.preset.clear();
                for (k, v) in initial {
                    c.preset.insert(k.clone(), *v);
                }
            }
        }
        let _ = take_last_panic();
        QUIET.store(true, std::sync::atomic::Ordering::Relaxed);
        let r = catch_unwind(AssertUnwindSafe(|| body()));
        QUIET.store(false, std::sync::atomic::Ordering::Relaxed);
        let panic_msg = if r.is_err() { Some(take_last_panic().unwrap_or_else(|| "panic".into())) } else { None };
        let _ = take_last_panic();
        let mut c = ctx::lock();
        c.preset.clear();
        let trace: Vec<Branch> = c.trace.clone();
        let obligs: Vec<Oblig> = c.obligs.clone();
        let model_now: Vec<i64> = c.model.clone();
        rep.digest = c.digest;
        rep.observed = c.observed;
        rep.paths += 1;
        rep.branches += trace.len() as u64;
        rep.max_depth = rep.max_depth.max(trace.len());
        for (k, v) in c.run_notes.iter() {
            *rep.notes.entry(k.clone()).or_insert(0) += *v;
            *rep.paths_with_note.entry(k.clone()).or_insert(0) += 1;
        }
        if rep.witnesses.len() < 3 {
            rep.witnesses.push(named_model(&c, &model_now));
        }
        // ---- self-check of the engine: every recorded branch constraint must evaluate to true under the very
        // model the run was executed with (catches a concrete/symbolic mismatch inside SymInt or the term store)
        if symbolic {
            let mut memo = std::collections::HashMap::new();
            let f = |i: u32| -> i64 { model_now.get(i as usize).copied().unwrap_or(0) };
            for b in trace.iter() {
                let ok = matches!(c.store.eval(b.taken, &f, &mut memo), crate::term::Val::B(true));
                rep.selfcheck_terms += 1;
                if !ok {
                    if rep.refused.len() < 5 {
                        rep.refused.push("SYMX-INTERNAL: a recorded branch constraint is false under the model of its own run".to_string());
                    }
                    rep.complete = false;
                    break;
                }
            }
        }
        // ---- divergence check
        let mut diverged = false;
        for i in 0..item.bound {
            if trace.len() <= i || trace[i].taken != item.expect[i] {
                diverged = true;
                break;
            }
        }
        if diverged {
            rep.divergences += 1;
        }
        // ---- panics
        if let Some(msg) = panic_msg {
            if msg.starts_with("SYMX-REFUSE") || msg.starts_with("SYMX-INTERNAL") || msg.starts_with("SYMX-DEPTH") {
                if rep.refused.len() < 5 {
                    rep.refused.push(msg.clone());
                }
                rep.complete = false;
            } else {
                let kind = if msg.starts_with("SYMX-BUDGET") { "nontermination" } else { "panic" };
                let label = if let Some(rest) = msg.strip_prefix("SYMX-LABEL[") { rest.split(']').next().unwrap_or("panic").to_string() } else { kind.to_string() };
                *rep.labels.entry(format!("VIOL:{}", label)).or_insert(0) += 1;
                rep.violations.push(Violation { kind: kind.into(), label, detail: msg, inputs: named_model(&c, &model_now), path: rep.paths });
            }
        }
        // ---- obligations
        let path_lits: Vec<TermId> = trace.iter().map(|b| b.taken).collect();
        let mut pending: Vec<&Oblig> = vec![];
        for o in obligs.iter() {
            rep.obligations += 1;
            *rep.labels.entry(o.label.clone()).or_insert(0) += 1;
            if !o.holds {
                *rep.labels.entry(format!("VIOL:{}", o.label)).or_insert(0) += 1;
                rep.violations.push(Violation { kind: if o.cond == 0 { "concrete".into() } else { "obligation".into() }, label: o.label.clone(), detail: "false under the path's own model".into(), inputs: named_model(&c, &model_now), path: rep.paths });
            } else if o.cond == 0 {
                rep.discharged_concrete += 1;
            } else {
                pending.push(o);
            }
        }
        drop(c);
        if let Some(solver) = solver.as_mut() {
            // dedupe identical conditions
            let mut seen = std::collections::HashSet::new();
            let mut conds: Vec<(TermId, Vec<&Oblig>)> = vec![];
            for o in pending.iter() {
                if seen.insert(o.cond) {
                    conds.push((o.cond, vec![*o]));
                } else {
                    conds.iter_mut().find(|x| x.0 == o.cond).unwrap().1.push(*o);
                }
            }
            let mut rounds = 0;
            while !conds.is_empty() && rounds < 8 {
                rounds += 1;
                let mut c = ctx::lock();
                let mut all = c.store.t_true;
                for (t, _) in conds.iter() {
                    all = c.store.and(all, *t);
                }
                let neg = c.store.not(all);
                let mut lits = path_lits.clone();
                lits.push(neg);
                let t0 = Instant::now();
                let res = solver.check(&c, &lits);
                rep.queries += 1;
                rep.oblig_queries += 1;
                match res {
                    Some(false) => {
                        rep.unsat += 1;
                        rep.solver_secs += t0.elapsed().as_secs_f64();
                        for (_, os) in conds.iter() {
                            rep.discharged_solver += os.len() as u64;
                        }
                        conds.clear();
                    }
                    Some(true) => {
                        rep.sat += 1;
                        let m = solver.model(&c);
                        rep.solver_secs += t0.elapsed().as_secs_f64();
                        if let Some(m) = m {
                            let mut keep = vec![];
                            let mut progressed = false;
                            for (t, os) in conds.drain(..) {
                                if !c.eval_bool(t, &m) {
                                    progressed = true;
                                    for o in os {
                                        *rep.labels.entry(format!("VIOL:{}", o.label)).or_insert(0) += 1;
                                        rep.violations.push(Violation { kind: "obligation".into(), label: o.label.clone(), detail: "path-condition AND NOT phi is SAT".into(), inputs: named_model(&c, &m), path: rep.paths });
                                    }
                                } else {
                                    keep.push((t, os));
                                }
                            }
                            conds = keep;
                            if !progressed {
                                rep.solver_errors.push("SAT model does not falsify any obligation".into());
                                break;
                            }
                        } else {
                            break;
                        }
                    }
                    None => {
                        rep.unknown += 1;
                        rep.solver_secs += t0.elapsed().as_secs_f64();
                        rep.complete = false;
                        break;
                    }
                }
            }
            // ---- expansion
            if !diverged || item.bound == 0 {
                let c = ctx::lock();
                let mut prefix_set: std::collections::HashSet<TermId> = path_lits[..item.bound.min(path_lits.len())].iter().copied().collect();
                for i in item.bound..trace.len() {
                    if i > item.bound {
                        prefix_set.insert(path_lits[i - 1]);
                    }
                    let br = &trace[i];
                    for (k, alt) in br.alts.iter().enumerate() {
                        let mut expect: Vec<TermId> = path_lits[..i].to_vec();
                        expect.push(*alt);
                        if let Some(free) = &br.free {
                            // pure choice: feasible by construction
                            let (idx, val) = free[k];
                            let mut m = model_now.clone();
                            m[idx as usize] = val;
                            rep.free_alts += 1;
                            stack.push(Item { bound: i + 1, model: m, expect });
                            continue;
                        }
                        // an UNSAT core found earlier for this very alternative, all of whose other literals are in
                        // the current prefix, proves this alternative infeasible here too (no query needed)
                        if let Some(cs) = cores.get(alt) {
                            if cs.iter().any(|core| core.iter().all(|l| prefix_set.contains(l))) {
                                rep.unsat_by_core += 1;
                                continue;
                            }
                        }
                        let t0 = Instant::now();
                        let res = solver.check(&c, &expect);
                        rep.queries += 1;
                        match res {
                            Some(true) => {
                                rep.sat += 1;
                                if let Some(m) = solver.model(&c) {
                                    stack.push(Item { bound: i + 1, model: m, expect });
                                } else {
                                    rep.complete = false;
                                }
                            }
                            Some(false) => {
                                rep.unsat += 1;
                                if let Some(core) = solver.unsat_core() {
                                    if core.contains(alt) && core.len() <= 12 {
                                        let rest: Vec<TermId> = core.into_iter().filter(|l| l != alt).collect();
                                        let e = cores.entry(*alt).or_insert_with(Vec::new);
                                        if e.len() < 64 {
                                            e.push(rest);
                                        }
                                    }
                                }
                            }
                            None => {
                                rep.unknown += 1;
                                rep.complete = false;
                            }
                        }
                        rep.solver_secs += t0.elapsed().as_secs_f64();
                    }
                }
            }
        }
    }
    if !stack.is_empty() {
        rep.complete = false;
    }
    if let Some(s) = solver.as_mut() {
        rep.solver_errors.extend(s.errors.drain(..).take(5));
        if !rep.solver_errors.is_empty() {
            rep.complete = false;
        }
    }
    let c = ctx::lock();
    rep.n_inputs = c.inputs.len();
    rep.n_terms = c.store.len();
    rep.inputs_decl = c.inputs.iter().map(|i| (i.name.clone(), i.lo, i.hi)).collect();
    rep.wall_secs = start.elapsed().as_secs_f64();
    rep
}
