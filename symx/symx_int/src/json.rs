//! minimal JSON writer (no external crates are available offline-safe)
use std::fmt::Write;

pub fn esc(s: &str) -> String {
    let mut o = String::with_capacity(s.len() + 2);
    o.push('"');
    for c in s.chars() {
        match c {
            '"' => o.push_str("\\\""),
            '\\' => o.push_str("\\\\"),
            '\n' => o.push_str("\\n"),
            '\t' => o.push_str("\\t"),
            '\r' => o.push_str("\\r"),
            c if (c as u32) < 0x20 => {
                let _ = write!(o, "\\u{:04x}", c as u32);
            }
            c => o.push(c),
        }
    }
    o.push('"');
    o
}

pub fn map_u64(m: &std::collections::BTreeMap<String, u64>) -> String {
    let items: Vec<String> = m.iter().map(|(k, v)| format!("{}:{}", esc(k), v)).collect();
    format!("{{{}}}", items.join(","))
}
pub fn named(m: &[(String, i64)]) -> String {
    let items: Vec<String> = m.iter().map(|(k, v)| format!("{}:{}", esc(k), v)).collect();
    format!("{{{}}}", items.join(","))
}

impl crate::explore::Report {
    pub fn to_json(&self) -> String {
        let viol: Vec<String> = self
            .violations
            .iter()
            .map(|v| format!("{{\"kind\":{},\"label\":{},\"detail\":{},\"path\":{},\"inputs\":{}}}", esc(&v.kind), esc(&v.label), esc(&v.detail), v.path, named(&v.inputs)))
            .collect();
        let wit: Vec<String> = self.witnesses.iter().map(|w| named(w)).collect();
        let decl: Vec<String> = self.inputs_decl.iter().map(|(n, lo, hi)| format!("[{},{},{}]", esc(n), lo, hi)).collect();
        let strs = |v: &Vec<String>| format!("[{}]", v.iter().map(|s| esc(s)).collect::<Vec<_>>().join(","));
        format!(
            "{{\"paths\":{},\"complete\":{},\"branches\":{},\"max_depth\":{},\"queries\":{},\"sat\":{},\"unsat\":{},\"unknown\":{},\"free_alts\":{},\"obligations\":{},\"discharged_solver\":{},\"discharged_concrete\":{},\"oblig_queries\":{},\"solver_secs\":{:.3},\"wall_secs\":{:.3},\"divergences\":{},\"refused\":{},\"solver_errors\":{},\"violations\":[{}],\"notes\":{},\"paths_with_note\":{},\"n_inputs\":{},\"n_terms\":{},\"inputs_decl\":[{}],\"witnesses\":[{}],\"labels\":{},\"digest\":\"{:016x}\",\"observed\":{},\"selfcheck_terms\":{},\"unsat_by_core\":{}}}",
            self.paths, self.complete, self.branches, self.max_depth, self.queries, self.sat, self.unsat, self.unknown, self.free_alts, self.obligations, self.discharged_solver, self.discharged_concrete, self.oblig_queries, self.solver_secs, self.wall_secs, self.divergences, strs(&self.refused), strs(&self.solver_errors), viol.join(","), map_u64(&self.notes), map_u64(&self.paths_with_note), self.n_inputs, self.n_terms, decl.join(","), wit.join(","), map_u64(&self.labels), self.digest, self.observed, self.selfcheck_terms, self.unsat_by_core
        )
    }
}
