//! symx_int — concolic integer type, term store, path recorder and
//! generational-DFS explorer used by /verif's solver-based checks of ddo.
pub mod ctx;
pub mod explore;
pub mod int;
pub mod json;
pub mod term;

pub use explore::{explore, Limits, Report, Violation};
pub use int::{choice, is_symbolic_run, note, note_n, oblige, observe, Cond, CostLike, SymInt};
