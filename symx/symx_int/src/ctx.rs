//! Process-global concolic context: inputs, current model, recorded branches,
//! obligations, notes.  Global (not thread-local) because the scheduled
//! parallel harness runs ddo's worker threads, which all record into it.
use crate::term::{Store, TermId, Val};
use std::collections::{BTreeMap, HashMap};
use std::sync::{Mutex, MutexGuard};

pub const LT: u8 = 1;
pub const EQ: u8 = 2;
pub const GT: u8 = 4;

#[derive(Clone, Debug)]
pub struct Input {
    pub name: String,
    pub lo: i64,
    pub hi: i64,
    pub term: TermId,
}

#[derive(Clone, Debug)]
pub struct Branch {
    pub taken: TermId,
    pub alts: Vec<TermId>,
    /// for pure choice points: (input index, value) per alternative, same order as alts
    pub free: Option<Vec<(u32, i64)>>,
}

#[derive(Clone, Debug)]
pub struct Oblig {
    pub label: String,
    pub cond: TermId, // 0 => concrete
    pub holds: bool,  // value under the current model
}

pub struct Ctx {
    pub store: Store,
    pub inputs: Vec<Input>,
    pub by_name: HashMap<String, u32>,
    pub model: Vec<i64>,
    pub symbolic: bool,
    pub seed: u64,
    // per run
    pub trace: Vec<Branch>,
    pub memo: HashMap<(TermId, TermId), u8>,
    pub obligs: Vec<Oblig>,
    pub notes: BTreeMap<String, u64>,
    pub run_notes: BTreeMap<String, u64>,
    pub choice_seq: u32,
    pub max_trace: usize,
    pub used_inputs: Vec<bool>,
    /// values forced for named inputs on the first run (replay / seeding)
    pub preset: HashMap<String, i64>,
    /// running hash of everything the harness observed on this run (differential self-validation)
    pub digest: u64,
    pub observed: u64,
}

static CTX: Mutex<Option<Ctx>> = Mutex::new(None);

pub struct Guard(MutexGuard<'static, Option<Ctx>>);
impl std::ops::Deref for Guard {
    type Target = Ctx;
    fn deref(&self) -> &Ctx {
        self.0.as_ref().unwrap()
    }
}
impl std::ops::DerefMut for Guard {
    fn deref_mut(&mut self) -> &mut Ctx {
        self.0.as_mut().unwrap()
    }
}

pub fn lock() -> Guard {
    let mut g = match CTX.lock() {
        Ok(g) => g,
        Err(p) => p.into_inner(),
    };
    if g.is_none() {
        *g = Some(Ctx::new());
    }
    Guard(g)
}

fn splitmix(mut x: u64) -> u64 {
    x = x.wrapping_add(0x9E3779B97F4A7C15);
    let mut z = x;
    z = (z ^ (z >> 30)).wrapping_mul(0xBF58476D1CE4E5B9);
    z = (z ^ (z >> 27)).wrapping_mul(0x94D049BB133111EB);
    z ^ (z >> 31)
}

impl Ctx {
    pub fn new() -> Self {
        Ctx {
            store: Store::new(),
            inputs: vec![],
            by_name: HashMap::new(),
            model: vec![],
            symbolic: true,
            seed: 0,
            trace: vec![],
            memo: HashMap::new(),
            obligs: vec![],
            notes: BTreeMap::new(),
            run_notes: BTreeMap::new(),
            choice_seq: 0,
            max_trace: 4000,
            used_inputs: vec![],
            preset: HashMap::new(),
            digest: 0xcbf29ce484222325,
            observed: 0,
        }
    }
    /// forget everything (new case)
    pub fn reset(&mut self, symbolic: bool, seed: u64) {
        *self = Ctx::new();
        self.symbolic = symbolic;
        self.seed = seed;
    }
    pub fn begin_run(&mut self, model: &[i64]) {
        for (i, v) in model.iter().enumerate() {
            if i < self.model.len() {
                self.model[i] = *v;
            } else {
                self.model.push(*v);
            }
        }
        self.trace.clear();
        self.memo.clear();
        self.obligs.clear();
        self.run_notes.clear();
        self.choice_seq = 0;
        self.digest = 0xcbf29ce484222325;
        self.observed = 0;
        for u in self.used_inputs.iter_mut() {
            *u = false;
        }
    }
    fn default_value(&self, name: &str, lo: i64, hi: i64) -> i64 {
        let mut h = self.seed ^ 0x51ed270b;
        for b in name.bytes() {
            h = splitmix(h ^ b as u64);
        }
        let span = (hi as i128 - lo as i128 + 1) as u128;
        // keep default magnitudes small so that first paths are readable
        let span = span.min(41);
        let base = if lo <= -20 && hi >= 20 { -20 } else { lo };
        (base as i128 + (h as u128 % span) as i128) as i64
    }
    /// declare (or look up) an input; returns (index, value under current model, term)
    pub fn input(&mut self, name: &str, lo: i64, hi: i64) -> (u32, i64, TermId) {
        let idx = if let Some(&i) = self.by_name.get(name) {
            i
        } else {
            let i = self.inputs.len() as u32;
            let term = self.store.var(i, lo, hi);
            self.inputs.push(Input { name: name.to_string(), lo, hi, term });
            self.by_name.insert(name.to_string(), i);
            i
        };
        while self.model.len() <= idx as usize {
            let k = self.model.len();
            let inp = self.inputs[k].clone();
            let d = self.default_value(&inp.name, inp.lo, inp.hi);
            self.model.push(d);
        }
        while self.used_inputs.len() <= idx as usize {
            self.used_inputs.push(false);
        }
        self.used_inputs[idx as usize] = true;
        let inp = &self.inputs[idx as usize];
        assert!(inp.lo == lo && inp.hi == hi, "input {} re-declared with another range", name);
        if let Some(p) = self.preset.get(name) {
            self.model[idx as usize] = *p;
        }
        let mut v = self.model[idx as usize];
        if v < lo || v > hi {
            v = v.clamp(lo, hi);
            self.model[idx as usize] = v;
        }
        (idx, v, inp.term)
    }
    pub fn observe(&mut self, label: &str, v: i64) {
        for b in label.bytes().chain(v.to_le_bytes()) {
            self.digest = (self.digest ^ b as u64).wrapping_mul(0x100000001b3);
        }
        self.observed += 1;
    }
    pub fn note(&mut self, key: &str, n: u64) {
        *self.run_notes.entry(key.to_string()).or_insert(0) += n;
    }

    // relation bookkeeping ---------------------------------------------------
    fn flip(m: u8) -> u8 {
        ((m & LT) << 2) | (m & EQ) | ((m & GT) >> 2)
    }
    fn interval_mask(&self, a: TermId, b: TermId) -> u8 {
        let (la, ha) = self.store.iv[a as usize];
        let (lb, hb) = self.store.iv[b as usize];
        let mut m = 0;
        if la < hb {
            m |= LT;
        }
        if ha > lb {
            m |= GT;
        }
        if !(ha < lb || hb < la) {
            m |= EQ;
        }
        m
    }
    /// which orderings of (a, b) are still possible given intervals and what
    /// this path has already asserted about the pair
    pub fn known(&self, a: TermId, b: TermId) -> u8 {
        if a == b {
            return EQ;
        }
        let im = self.interval_mask(a, b);
        let mm = if a < b { self.memo.get(&(a, b)).copied().unwrap_or(7) } else { Self::flip(self.memo.get(&(b, a)).copied().unwrap_or(7)) };
        im & mm
    }
    fn remember(&mut self, a: TermId, b: TermId, m: u8) {
        if a < b {
            self.memo.insert((a, b), m);
        } else {
            self.memo.insert((b, a), Self::flip(m));
        }
    }
    pub fn rel_term(&mut self, a: TermId, b: TermId, m: u8) -> TermId {
        match m {
            1 => self.store.lt(a, b),
            2 => self.store.eq(a, b),
            4 => self.store.lt(b, a),
            3 => self.store.le(a, b),
            6 => self.store.le(b, a),
            5 => {
                let e = self.store.eq(a, b);
                self.store.not(e)
            }
            7 => self.store.t_true,
            _ => self.store.t_false,
        }
    }
    fn check_depth(&self) {
        if self.trace.len() >= self.max_trace {
            panic!("SYMX-DEPTH: more than {} recorded branches on one path", self.max_trace);
        }
    }
    /// three-way comparison; `actual` is the ordering bit under the model
    pub fn cmp3(&mut self, a: TermId, b: TermId, actual: u8) -> u8 {
        let mask = self.known(a, b);
        if mask & actual == 0 {
            panic!("SYMX-INTERNAL: concrete ordering contradicts path facts");
        }
        if mask == actual {
            return actual;
        }
        self.check_depth();
        let taken = self.rel_term(a, b, actual);
        let mut alts = vec![];
        for bit in [LT, EQ, GT] {
            if bit != actual && mask & bit != 0 {
                let t = self.rel_term(a, b, bit);
                alts.push(t);
            }
        }
        self.trace.push(Branch { taken, alts, free: None });
        self.remember(a, b, actual);
        actual
    }
    /// two-way test "ordering(a,b) in want"; returns the truth value
    pub fn test2(&mut self, a: TermId, b: TermId, want: u8, actual: u8) -> bool {
        let mask = self.known(a, b);
        if mask & actual == 0 {
            panic!("SYMX-INTERNAL: concrete ordering contradicts path facts");
        }
        if mask & want == mask {
            return true;
        }
        if mask & want == 0 {
            return false;
        }
        self.check_depth();
        let res = actual & want != 0;
        let tm = if res { mask & want } else { mask & !want };
        let om = mask & !tm;
        let taken = self.rel_term(a, b, tm);
        let alt = self.rel_term(a, b, om);
        self.trace.push(Branch { taken, alts: vec![alt], free: None });
        self.remember(a, b, tm);
        res
    }
    /// branch on an arbitrary boolean term
    pub fn decide(&mut self, c: TermId, actual: bool) -> bool {
        if c == self.store.t_true {
            return true;
        }
        if c == self.store.t_false {
            return false;
        }
        // already decided on this path?
        let n = self.store.not(c);
        for b in self.trace.iter() {
            if b.taken == c {
                return true;
            }
            if b.taken == n {
                return false;
            }
        }
        self.check_depth();
        let (taken, alt) = if actual { (c, n) } else { (n, c) };
        self.trace.push(Branch { taken, alts: vec![alt], free: None });
        actual
    }
    /// n-way free choice (scheduler); returns the chosen index
    pub fn choice(&mut self, n: usize, tag: &str) -> usize {
        assert!(n >= 1);
        let k = self.choice_seq;
        self.choice_seq += 1;
        if n == 1 {
            return 0;
        }
        let name = format!("{}{}", tag, k);
        let (idx, mut v, term) = self.input(&name, 0, 63);
        if v as usize >= n {
            v = 0;
            self.model[idx as usize] = 0;
        }
        if !self.symbolic {
            return v as usize;
        }
        self.check_depth();
        let mut alts = vec![];
        let mut free = vec![];
        for j in 0..n as i64 {
            let kj = self.store.konst(j);
            let e = self.store.eq(term, kj);
            if j == v {
                continue;
            }
            alts.push(e);
            free.push((idx, j));
        }
        let kv = self.store.konst(v);
        let taken = self.store.eq(term, kv);
        self.trace.push(Branch { taken, alts, free: Some(free) });
        v as usize
    }
    pub fn oblige(&mut self, label: &str, cond: TermId, holds: bool) {
        self.obligs.push(Oblig { label: label.to_string(), cond, holds });
    }
    pub fn eval_bool(&self, t: TermId, model: &[i64]) -> bool {
        let mut memo = HashMap::new();
        let f = |i: u32| -> i64 { model.get(i as usize).copied().unwrap_or(0) };
        match self.store.eval(t, &f, &mut memo) {
            Val::B(b) => b,
            _ => panic!("sort"),
        }
    }
    pub fn eval_int(&self, t: TermId, model: &[i64]) -> i128 {
        let mut memo = HashMap::new();
        let f = |i: u32| -> i64 { model.get(i as usize).copied().unwrap_or(0) };
        match self.store.eval(t, &f, &mut memo) {
            Val::I(v) => v,
            _ => panic!("sort"),
        }
    }
}

impl Default for Ctx {
    fn default() -> Self {
        Self::new()
    }
}
