//! `SymInt`: a Copy integer that carries a concrete i64 (value under the
//! current model) and an optional SMT term.  It stands in for `isize` in the
//! type-substituted copy of ddo.  Machine semantics are kept: saturating ops
//! are encoded as clamps, plain + - * refuse (panic "SYMX-REFUSE") when the
//! term's interval cannot exclude a 64-bit overflow.
use crate::ctx::{self, EQ, GT, LT};
use crate::term::TermId;
use std::cmp::Ordering;
use std::fmt;
use std::hash::{Hash, Hasher};
use std::ops::*;

#[derive(Clone, Copy)]
pub struct SymInt {
    pub(crate) v: i64,
    pub(crate) t: TermId,
}

#[inline]
fn bit(o: Ordering) -> u8 {
    match o {
        Ordering::Less => LT,
        Ordering::Equal => EQ,
        Ordering::Greater => GT,
    }
}
#[inline]
fn ord(b: u8) -> Ordering {
    match b {
        LT => Ordering::Less,
        EQ => Ordering::Equal,
        _ => Ordering::Greater,
    }
}

impl SymInt {
    pub const MAX: SymInt = SymInt { v: i64::MAX, t: 0 };
    pub const MIN: SymInt = SymInt { v: i64::MIN, t: 0 };
    pub const BITS: u32 = 64;

    #[inline]
    pub const fn lit(v: i64) -> SymInt {
        SymInt { v, t: 0 }
    }
    /// a symbolic input (or, in a concrete run, its value under the model)
    pub fn input(name: &str, lo: i64, hi: i64) -> SymInt {
        let mut c = ctx::lock();
        let (_, v, term) = c.input(name, lo, hi);
        if c.symbolic && lo != hi {
            SymInt { v, t: term }
        } else {
            SymInt { v, t: 0 }
        }
    }
    #[inline]
    pub fn conc(self) -> i64 {
        self.v
    }
    #[inline]
    pub fn is_symbolic(self) -> bool {
        self.t != 0
    }
    pub(crate) fn term(self, c: &mut ctx::Ctx) -> TermId {
        if self.t != 0 {
            self.t
        } else {
            c.store.konst(self.v)
        }
    }
    pub fn term_id(self) -> TermId {
        if self.t != 0 {
            self.t
        } else {
            ctx::lock().store.konst(self.v)
        }
    }
    fn wrap(c: &ctx::Ctx, v: i64, t: TermId) -> SymInt {
        if c.store.as_const(t).is_some() {
            debug_assert_eq!(c.store.as_const(t), Some(v));
            SymInt { v, t: 0 }
        } else {
            SymInt { v, t }
        }
    }

    pub fn saturating_add(self, o: impl Into<SymInt>) -> SymInt {
        let o: SymInt = o.into();
        let v = self.v.saturating_add(o.v);
        if self.t == 0 && o.t == 0 {
            return SymInt::lit(v);
        }
        let mut c = ctx::lock();
        let (a, b) = (self.term(&mut c), o.term(&mut c));
        let t = c.store.sat_add(a, b);
        Self::wrap(&c, v, t)
    }
    pub fn saturating_sub(self, o: impl Into<SymInt>) -> SymInt {
        let o: SymInt = o.into();
        let v = self.v.saturating_sub(o.v);
        if self.t == 0 && o.t == 0 {
            return SymInt::lit(v);
        }
        let mut c = ctx::lock();
        let (a, b) = (self.term(&mut c), o.term(&mut c));
        let t = c.store.sat_sub(a, b);
        Self::wrap(&c, v, t)
    }
    /// max/min never fork: they become `ite` terms
    pub fn max(self, o: SymInt) -> SymInt {
        let v = self.v.max(o.v);
        if self.t == 0 && o.t == 0 {
            return SymInt::lit(v);
        }
        let mut c = ctx::lock();
        let (a, b) = (self.term(&mut c), o.term(&mut c));
        let t = c.store.max(a, b);
        Self::wrap(&c, v, t)
    }
    pub fn min(self, o: SymInt) -> SymInt {
        let v = self.v.min(o.v);
        if self.t == 0 && o.t == 0 {
            return SymInt::lit(v);
        }
        let mut c = ctx::lock();
        let (a, b) = (self.term(&mut c), o.term(&mut c));
        let t = c.store.min(a, b);
        Self::wrap(&c, v, t)
    }
    pub fn abs(self) -> SymInt {
        if self.t == 0 {
            return SymInt::lit(self.v.abs());
        }
        let mut c = ctx::lock();
        match c.store.abs(self.t) {
            Some(t) => Self::wrap(&c, self.v.abs(), t),
            None => {
                drop(c);
                panic!("SYMX-REFUSE: abs may overflow")
            }
        }
    }
    pub fn signum(self) -> SymInt {
        // forks (three-way) when symbolic
        match self.cmp(&SymInt::lit(0)) {
            Ordering::Less => SymInt::lit(-1),
            Ordering::Equal => SymInt::lit(0),
            Ordering::Greater => SymInt::lit(1),
        }
    }
    /// used by the automatic cast fix-up of the rewrite (`x as T` on a cost): only legal on a concrete value
    pub fn cast_conc(self) -> i64 {
        if self.t != 0 {
            panic!("SYMX-REFUSE: a symbolic cost is cast to another numeric type (not encodable)");
        }
        self.v
    }
    pub fn to_f32(self) -> f32 {
        self.v as f32
    }
    pub fn to_f64(self) -> f64 {
        self.v as f64
    }
    // checked / wrapping / overflowing forms: exact on concrete values; on symbolic ones the plain operator is used, which
    // REFUSES (inconclusive, never a wrong verdict) when an overflow is possible inside the stated input ranges
    pub fn checked_add(self, o: impl Into<SymInt>) -> Option<SymInt> {
        let o: SymInt = o.into();
        if self.t == 0 && o.t == 0 {
            return self.v.checked_add(o.v).map(SymInt::lit);
        }
        // exact: the overflow test is an ordinary (recorded) comparison against MAX - o / MIN - o, computed with the
        // saturating forms, which are exact on the side of the sign test; without overflow sat_add IS the sum
        if o >= SymInt::lit(0) {
            if self > SymInt::MAX.saturating_sub(o) {
                return None;
            }
        } else if self < SymInt::MIN.saturating_sub(o) {
            return None;
        }
        Some(self.saturating_add(o))
    }
    pub fn checked_sub(self, o: impl Into<SymInt>) -> Option<SymInt> {
        let o: SymInt = o.into();
        if self.t == 0 && o.t == 0 {
            return self.v.checked_sub(o.v).map(SymInt::lit);
        }
        if o >= SymInt::lit(0) {
            if self < SymInt::MIN.saturating_add(o) {
                return None;
            }
        } else if self > SymInt::MAX.saturating_add(o) {
            return None;
        }
        Some(self.saturating_sub(o))
    }
    pub fn checked_mul(self, o: impl Into<SymInt>) -> Option<SymInt> {
        let o: SymInt = o.into();
        if self.t == 0 && o.t == 0 {
            return self.v.checked_mul(o.v).map(SymInt::lit);
        }
        Some(self * o)
    }
    pub fn checked_neg(self) -> Option<SymInt> {
        if self.t == 0 {
            return self.v.checked_neg().map(SymInt::lit);
        }
        Some(-self)
    }
    pub fn wrapping_add(self, o: impl Into<SymInt>) -> SymInt {
        let o: SymInt = o.into();
        if self.t == 0 && o.t == 0 {
            return SymInt::lit(self.v.wrapping_add(o.v));
        }
        self + o
    }
    pub fn wrapping_sub(self, o: impl Into<SymInt>) -> SymInt {
        let o: SymInt = o.into();
        if self.t == 0 && o.t == 0 {
            return SymInt::lit(self.v.wrapping_sub(o.v));
        }
        self - o
    }
    pub fn wrapping_neg(self) -> SymInt {
        if self.t == 0 {
            return SymInt::lit(self.v.wrapping_neg());
        }
        -self
    }
    pub fn saturating_neg(self) -> SymInt {
        SymInt::lit(0).saturating_sub(self)
    }
    pub fn saturating_mul(self, o: impl Into<SymInt>) -> SymInt {
        let o: SymInt = o.into();
        if self.t == 0 && o.t == 0 {
            return SymInt::lit(self.v.saturating_mul(o.v));
        }
        self * o
    }
    pub fn saturating_abs(self) -> SymInt {
        if self.t == 0 {
            return SymInt::lit(self.v.saturating_abs());
        }
        self.abs()
    }
    pub fn wrapping_abs(self) -> SymInt {
        if self.t == 0 {
            return SymInt::lit(self.v.wrapping_abs());
        }
        self.abs()
    }
    pub fn unsigned_abs(self) -> u64 {
        self.cast_conc().unsigned_abs()
    }
    pub fn pow(self, e: u32) -> SymInt {
        let mut acc = SymInt::lit(1);
        for _ in 0..e {
            acc = acc * self;
        }
        acc
    }
    pub fn is_positive(self) -> bool {
        self > SymInt::lit(0)
    }
    pub fn is_negative(self) -> bool {
        self < SymInt::lit(0)
    }
    pub fn clamp(self, lo: SymInt, hi: SymInt) -> SymInt {
        SymInt::min(SymInt::max(self, lo), hi)
    }
}

macro_rules! from_prim {
    ($($t:ty),*) => {$(
        impl From<$t> for SymInt { #[inline] fn from(x: $t) -> SymInt { SymInt::lit(x as i64) } }
    )*};
}
from_prim!(i8, i16, i32, i64, isize, u8, u16, u32, usize, bool);

impl Default for SymInt {
    fn default() -> Self {
        SymInt::lit(0)
    }
}
impl fmt::Debug for SymInt {
    fn fmt(&self, f: &mut fmt::Formatter<'_>) -> fmt::Result {
        fmt::Debug::fmt(&self.v, f)
    }
}
impl fmt::Display for SymInt {
    fn fmt(&self, f: &mut fmt::Formatter<'_>) -> fmt::Result {
        fmt::Display::fmt(&self.v, f)
    }
}
impl std::str::FromStr for SymInt {
    type Err = std::num::ParseIntError;
    fn from_str(s: &str) -> Result<Self, Self::Err> {
        s.parse::<i64>().map(SymInt::lit)
    }
}
impl Hash for SymInt {
    fn hash<H: Hasher>(&self, h: &mut H) {
        if self.t != 0 {
            panic!("SYMX-REFUSE: hashing a symbolic cost (state types must not embed costs)");
        }
        self.v.hash(h)
    }
}

// ------------------------------------------------------------------ arithmetic
fn refuse(what: &str) -> ! {
    panic!("SYMX-REFUSE: {} may overflow a 64-bit word outside the stated input range", what)
}

impl Add for SymInt {
    type Output = SymInt;
    fn add(self, o: SymInt) -> SymInt {
        if self.t == 0 && o.t == 0 {
            return SymInt::lit(self.v.checked_add(o.v).expect("attempt to add with overflow"));
        }
        let mut c = ctx::lock();
        let (a, b) = (self.term(&mut c), o.term(&mut c));
        match c.store.add(a, b) {
            Some(t) => Self::wrap(&c, self.v + o.v, t),
            None => {
                drop(c);
                refuse("+")
            }
        }
    }
}
impl Sub for SymInt {
    type Output = SymInt;
    fn sub(self, o: SymInt) -> SymInt {
        if self.t == 0 && o.t == 0 {
            return SymInt::lit(self.v.checked_sub(o.v).expect("attempt to subtract with overflow"));
        }
        let mut c = ctx::lock();
        let (a, b) = (self.term(&mut c), o.term(&mut c));
        match c.store.sub(a, b) {
            Some(t) => Self::wrap(&c, self.v - o.v, t),
            None => {
                drop(c);
                refuse("-")
            }
        }
    }
}
impl Neg for SymInt {
    type Output = SymInt;
    fn neg(self) -> SymInt {
        if self.t == 0 {
            return SymInt::lit(self.v.checked_neg().expect("attempt to negate with overflow"));
        }
        let mut c = ctx::lock();
        match c.store.neg(self.t) {
            Some(t) => Self::wrap(&c, -self.v, t),
            None => {
                drop(c);
                refuse("neg")
            }
        }
    }
}
impl Mul for SymInt {
    type Output = SymInt;
    fn mul(self, o: SymInt) -> SymInt {
        if self.t == 0 && o.t == 0 {
            return SymInt::lit(self.v.checked_mul(o.v).expect("attempt to multiply with overflow"));
        }
        let (s, k) = if o.t == 0 {
            (self, o.v)
        } else if self.t == 0 {
            (o, self.v)
        } else {
            panic!("SYMX-REFUSE: non-linear (symbolic * symbolic)")
        };
        let mut c = ctx::lock();
        match c.store.mulc(s.t, k) {
            Some(t) => Self::wrap(&c, s.v * k, t),
            None => {
                drop(c);
                refuse("*")
            }
        }
    }
}
impl Div for SymInt {
    type Output = SymInt;
    fn div(self, o: SymInt) -> SymInt {
        if self.t == 0 && o.t == 0 {
            return SymInt::lit(self.v / o.v);
        }
        panic!("SYMX-REFUSE: division of a symbolic cost")
    }
}
impl Rem for SymInt {
    type Output = SymInt;
    fn rem(self, o: SymInt) -> SymInt {
        if self.t == 0 && o.t == 0 {
            return SymInt::lit(self.v % o.v);
        }
        panic!("SYMX-REFUSE: remainder of a symbolic cost")
    }
}
macro_rules! assign_ops {
    ($($tr:ident $f:ident $op:tt),*) => {$(
        impl $tr for SymInt { fn $f(&mut self, o: SymInt) { *self = *self $op o; } }
    )*};
}
assign_ops!(AddAssign add_assign +, SubAssign sub_assign -, MulAssign mul_assign *, DivAssign div_assign /, RemAssign rem_assign %);

macro_rules! prim_rhs {
    ($($t:ty),*) => {$(
        impl Add<$t> for SymInt { type Output = SymInt; fn add(self, o: $t) -> SymInt { self + SymInt::from(o) } }
        impl Sub<$t> for SymInt { type Output = SymInt; fn sub(self, o: $t) -> SymInt { self - SymInt::from(o) } }
        impl Mul<$t> for SymInt { type Output = SymInt; fn mul(self, o: $t) -> SymInt { self * SymInt::from(o) } }
        impl PartialEq<$t> for SymInt { fn eq(&self, o: &$t) -> bool { *self == SymInt::from(*o) } }
        impl PartialOrd<$t> for SymInt { fn partial_cmp(&self, o: &$t) -> Option<Ordering> { Some(self.cmp(&SymInt::from(*o))) } }
    )*};
}
prim_rhs!(i32, i64, isize);
macro_rules! prim_div {
    ($($t:ty),*) => {$(
        impl Div<$t> for SymInt { type Output = SymInt; fn div(self, o: $t) -> SymInt { self / SymInt::from(o) } }
        impl Rem<$t> for SymInt { type Output = SymInt; fn rem(self, o: $t) -> SymInt { self % SymInt::from(o) } }
    )*};
}
prim_div!(i32, i64, isize);

impl std::iter::Sum for SymInt {
    fn sum<I: Iterator<Item = SymInt>>(iter: I) -> SymInt {
        iter.fold(SymInt::lit(0), |a, b| a + b)
    }
}
impl<'a> std::iter::Sum<&'a SymInt> for SymInt {
    fn sum<I: Iterator<Item = &'a SymInt>>(iter: I) -> SymInt {
        iter.fold(SymInt::lit(0), |a, b| a + *b)
    }
}

// ------------------------------------------------------------------ comparisons
impl SymInt {
    fn test(self, o: SymInt, want: u8) -> bool {
        let actual = bit(self.v.cmp(&o.v));
        if self.t == 0 && o.t == 0 {
            return actual & want != 0;
        }
        let mut c = ctx::lock();
        let (a, b) = (self.term(&mut c), o.term(&mut c));
        c.test2(a, b, want, actual)
    }
}
impl PartialEq for SymInt {
    fn eq(&self, o: &SymInt) -> bool {
        self.test(*o, EQ)
    }
}
impl Eq for SymInt {}
impl PartialOrd for SymInt {
    fn partial_cmp(&self, o: &SymInt) -> Option<Ordering> {
        Some(self.cmp(o))
    }
    fn lt(&self, o: &SymInt) -> bool {
        self.test(*o, LT)
    }
    fn le(&self, o: &SymInt) -> bool {
        self.test(*o, LT | EQ)
    }
    fn gt(&self, o: &SymInt) -> bool {
        self.test(*o, GT)
    }
    fn ge(&self, o: &SymInt) -> bool {
        self.test(*o, GT | EQ)
    }
}
impl Ord for SymInt {
    fn cmp(&self, o: &SymInt) -> Ordering {
        let actual = self.v.cmp(&o.v);
        if self.t == 0 && o.t == 0 {
            return actual;
        }
        let mut c = ctx::lock();
        let (a, b) = (self.term(&mut c), o.term(&mut c));
        ord(c.cmp3(a, b, bit(actual)))
    }
    fn max(self, o: SymInt) -> SymInt {
        SymInt::max(self, o)
    }
    fn min(self, o: SymInt) -> SymInt {
        SymInt::min(self, o)
    }
    fn clamp(self, lo: SymInt, hi: SymInt) -> SymInt {
        SymInt::clamp(self, lo, hi)
    }
}

// ------------------------------------------------------------------ Cond
/// A boolean built from comparisons WITHOUT forking; used to state obligations
/// and to build oracle terms.
#[derive(Clone, Copy, Debug)]
pub struct Cond {
    pub v: bool,
    pub t: TermId, // 0 => concrete
}
impl Cond {
    pub const TRUE: Cond = Cond { v: true, t: 0 };
    pub const FALSE: Cond = Cond { v: false, t: 0 };
    pub fn lit(b: bool) -> Cond {
        Cond { v: b, t: 0 }
    }
    fn term(self, c: &mut ctx::Ctx) -> TermId {
        if self.t != 0 {
            self.t
        } else {
            c.store.boolean(self.v)
        }
    }
    fn wrap(c: &ctx::Ctx, v: bool, t: TermId) -> Cond {
        if t == c.store.t_true {
            debug_assert!(v);
            Cond { v: true, t: 0 }
        } else if t == c.store.t_false {
            debug_assert!(!v);
            Cond { v: false, t: 0 }
        } else {
            Cond { v, t }
        }
    }
    pub fn and(self, o: Cond) -> Cond {
        if self.t == 0 && o.t == 0 {
            return Cond::lit(self.v && o.v);
        }
        let mut c = ctx::lock();
        let (a, b) = (self.term(&mut c), o.term(&mut c));
        let t = c.store.and(a, b);
        Self::wrap(&c, self.v && o.v, t)
    }
    pub fn or(self, o: Cond) -> Cond {
        if self.t == 0 && o.t == 0 {
            return Cond::lit(self.v || o.v);
        }
        let mut c = ctx::lock();
        let (a, b) = (self.term(&mut c), o.term(&mut c));
        let t = c.store.or(a, b);
        Self::wrap(&c, self.v || o.v, t)
    }
    pub fn not(self) -> Cond {
        if self.t == 0 {
            return Cond::lit(!self.v);
        }
        let mut c = ctx::lock();
        let t = c.store.not(self.t);
        Self::wrap(&c, !self.v, t)
    }
    pub fn implies(self, o: Cond) -> Cond {
        self.not().or(o)
    }
    /// fork on this condition (recorded two-way branch)
    pub fn decide(self) -> bool {
        if self.t == 0 {
            return self.v;
        }
        ctx::lock().decide(self.t, self.v)
    }
}

fn rel(a: SymInt, b: SymInt, m: u8) -> Cond {
    let v = bit(a.v.cmp(&b.v)) & m != 0;
    if a.t == 0 && b.t == 0 {
        return Cond::lit(v);
    }
    let mut c = ctx::lock();
    let (ta, tb) = (a.term(&mut c), b.term(&mut c));
    let t = c.rel_term(ta, tb, m);
    Cond::wrap(&c, v, t)
}

/// The operations harness code uses on costs; implemented for `SymInt`
/// (symbolic build) and for `isize` (native replay build against the
/// unmodified crate), so that the same harness source serves both.
pub trait CostLike: Copy + fmt::Debug + Ord {
    fn lit(v: i64) -> Self;
    fn input(name: &str, lo: i64, hi: i64) -> Self;
    fn conc(self) -> i64;
    fn le_c(self, o: Self) -> Cond;
    fn lt_c(self, o: Self) -> Cond;
    fn eq_c(self, o: Self) -> Cond;
    fn ge_c(self, o: Self) -> Cond {
        o.le_c(self)
    }
    fn gt_c(self, o: Self) -> Cond {
        o.lt_c(self)
    }
    fn mx(self, o: Self) -> Self;
    fn mn(self, o: Self) -> Self;
    fn plus(self, o: Self) -> Self;
    fn minus(self, o: Self) -> Self;
    fn sat_plus(self, o: Self) -> Self;
    fn ite(c: Cond, a: Self, b: Self) -> Self;
    fn cmax() -> Self;
    fn cmin() -> Self;
}

impl CostLike for SymInt {
    fn lit(v: i64) -> Self {
        SymInt::lit(v)
    }
    fn input(name: &str, lo: i64, hi: i64) -> Self {
        SymInt::input(name, lo, hi)
    }
    fn conc(self) -> i64 {
        self.v
    }
    fn le_c(self, o: Self) -> Cond {
        rel(self, o, LT | EQ)
    }
    fn lt_c(self, o: Self) -> Cond {
        rel(self, o, LT)
    }
    fn eq_c(self, o: Self) -> Cond {
        rel(self, o, EQ)
    }
    fn mx(self, o: Self) -> Self {
        SymInt::max(self, o)
    }
    fn mn(self, o: Self) -> Self {
        SymInt::min(self, o)
    }
    fn plus(self, o: Self) -> Self {
        self + o
    }
    fn minus(self, o: Self) -> Self {
        self - o
    }
    fn sat_plus(self, o: Self) -> Self {
        self.saturating_add(o)
    }
    fn ite(c: Cond, a: Self, b: Self) -> Self {
        let v = if c.v { a.v } else { b.v };
        if c.t == 0 {
            return if c.v { a } else { b };
        }
        let mut x = ctx::lock();
        let (ta, tb) = (a.term(&mut x), b.term(&mut x));
        let t = x.store.ite(c.t, ta, tb);
        SymInt::wrap(&x, v, t)
    }
    fn cmax() -> Self {
        SymInt::MAX
    }
    fn cmin() -> Self {
        SymInt::MIN
    }
}

impl CostLike for isize {
    fn lit(v: i64) -> Self {
        v as isize
    }
    fn input(name: &str, lo: i64, hi: i64) -> Self {
        let mut c = ctx::lock();
        let (_, v, _) = c.input(name, lo, hi);
        v as isize
    }
    fn conc(self) -> i64 {
        self as i64
    }
    fn le_c(self, o: Self) -> Cond {
        Cond::lit(self <= o)
    }
    fn lt_c(self, o: Self) -> Cond {
        Cond::lit(self < o)
    }
    fn eq_c(self, o: Self) -> Cond {
        Cond::lit(self == o)
    }
    fn mx(self, o: Self) -> Self {
        Ord::max(self, o)
    }
    fn mn(self, o: Self) -> Self {
        Ord::min(self, o)
    }
    fn plus(self, o: Self) -> Self {
        self + o
    }
    fn minus(self, o: Self) -> Self {
        self - o
    }
    fn sat_plus(self, o: Self) -> Self {
        self.saturating_add(o)
    }
    fn ite(c: Cond, a: Self, b: Self) -> Self {
        if c.v {
            a
        } else {
            b
        }
    }
    fn cmax() -> Self {
        isize::MAX
    }
    fn cmin() -> Self {
        isize::MIN
    }
}

/// record an obligation `cond` (must hold for every input following this path)
pub fn oblige(label: &str, cond: Cond) {
    ctx::lock().oblige(label, cond.t, cond.v);
}
/// bump a per-run counter (shape features, vacuity witnesses ...)
pub fn note(key: &str) {
    ctx::lock().note(key, 1);
}
pub fn note_n(key: &str, n: u64) {
    ctx::lock().note(key, n);
}
/// free n-way choice explored like a data branch (scheduler decisions)
pub fn choice(n: usize, tag: &str) -> usize {
    ctx::lock().choice(n, tag)
}
/// record an observed concrete value (values, flags, solutions ...) into the
/// run digest; native and shadow builds must produce the same digest for the
/// same concrete inputs
pub fn observe(label: &str, v: i64) {
    ctx::lock().observe(label, v);
}
/// true while the explorer runs the body symbolically (false in concrete replay / native runs)
pub fn is_symbolic_run() -> bool {
    ctx::lock().symbolic
}
