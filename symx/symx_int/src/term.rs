//! Hash-consed term store: linear integer arithmetic with ite/max/min and
//! saturating add/sub (encoded as clamp), plus boolean structure.
//! Every integer term carries a conservative interval (i128) that is used to
//! (a) decide comparisons without forking, (b) prove that a saturating
//! operation cannot saturate (so the plain `+` is emitted), (c) refuse plain
//! `+`/`-` that might overflow a machine word.
use std::collections::HashMap;

pub type TermId = u32; // 0 = no term (concrete value)

pub const IMIN: i128 = i64::MIN as i128;
pub const IMAX: i128 = i64::MAX as i128;

#[derive(Clone, PartialEq, Eq, Hash, Debug)]
pub enum Node {
    Dummy,
    // integer sorted
    Var(u32),
    Const(i64),
    Add(TermId, TermId),
    Sub(TermId, TermId),
    SatAdd(TermId, TermId),
    SatSub(TermId, TermId),
    Neg(TermId),
    Abs(TermId),
    Max(TermId, TermId),
    Min(TermId, TermId),
    Ite(TermId, TermId, TermId),
    MulC(TermId, i64),
    // boolean sorted
    True,
    False,
    Lt(TermId, TermId),
    Le(TermId, TermId),
    EqI(TermId, TermId),
    Not(TermId),
    And(TermId, TermId),
    Or(TermId, TermId),
}

#[derive(Clone, Copy, Debug, PartialEq)]
pub enum Val {
    I(i128),
    B(bool),
}

pub struct Store {
    pub nodes: Vec<Node>,
    pub iv: Vec<(i128, i128)>,
    cons: HashMap<Node, TermId>,
    pub t_true: TermId,
    pub t_false: TermId,
}

impl Default for Store {
    fn default() -> Self {
        Self::new()
    }
}

impl Store {
    pub fn new() -> Self {
        let mut s = Store { nodes: vec![Node::Dummy], iv: vec![(0, 0)], cons: HashMap::new(), t_true: 0, t_false: 0 };
        s.t_true = s.intern(Node::True, (1, 1));
        s.t_false = s.intern(Node::False, (0, 0));
        s
    }
    pub fn len(&self) -> usize {
        self.nodes.len()
    }
    pub fn is_empty(&self) -> bool {
        false
    }
    fn intern(&mut self, n: Node, iv: (i128, i128)) -> TermId {
        if let Some(&id) = self.cons.get(&n) {
            return id;
        }
        let id = self.nodes.len() as TermId;
        self.nodes.push(n.clone());
        self.iv.push(iv);
        self.cons.insert(n, id);
        id
    }
    pub fn is_bool(&self, t: TermId) -> bool {
        matches!(
            self.nodes[t as usize],
            Node::True | Node::False | Node::Lt(..) | Node::Le(..) | Node::EqI(..) | Node::Not(..) | Node::And(..) | Node::Or(..)
        )
    }
    pub fn lo(&self, t: TermId) -> i128 {
        self.iv[t as usize].0
    }
    pub fn hi(&self, t: TermId) -> i128 {
        self.iv[t as usize].1
    }
    pub fn as_const(&self, t: TermId) -> Option<i64> {
        if let Node::Const(v) = self.nodes[t as usize] {
            Some(v)
        } else {
            None
        }
    }

    // ---------------------------------------------------------------- ints
    pub fn var(&mut self, idx: u32, lo: i64, hi: i64) -> TermId {
        self.intern(Node::Var(idx), (lo as i128, hi as i128))
    }
    pub fn konst(&mut self, v: i64) -> TermId {
        self.intern(Node::Const(v), (v as i128, v as i128))
    }
    fn fits(iv: (i128, i128)) -> bool {
        iv.0 >= IMIN && iv.1 <= IMAX
    }
    fn clampi(v: i128) -> i128 {
        v.clamp(IMIN, IMAX)
    }
    /// plain (checked) addition: None if the interval cannot exclude overflow
    pub fn add(&mut self, a: TermId, b: TermId) -> Option<TermId> {
        let iv = (self.lo(a) + self.lo(b), self.hi(a) + self.hi(b));
        if !Self::fits(iv) {
            return None;
        }
        Some(self.add_unchecked(a, b, iv))
    }
    fn add_unchecked(&mut self, a: TermId, b: TermId, iv: (i128, i128)) -> TermId {
        if let (Some(x), Some(y)) = (self.as_const(a), self.as_const(b)) {
            return self.konst((x as i128 + y as i128) as i64);
        }
        if self.as_const(a) == Some(0) {
            return b;
        }
        if self.as_const(b) == Some(0) {
            return a;
        }
        let (a, b) = if a <= b { (a, b) } else { (b, a) };
        self.intern(Node::Add(a, b), iv)
    }
    pub fn sub(&mut self, a: TermId, b: TermId) -> Option<TermId> {
        let iv = (self.lo(a) - self.hi(b), self.hi(a) - self.lo(b));
        if !Self::fits(iv) {
            return None;
        }
        Some(self.sub_unchecked(a, b, iv))
    }
    fn sub_unchecked(&mut self, a: TermId, b: TermId, iv: (i128, i128)) -> TermId {
        if let (Some(x), Some(y)) = (self.as_const(a), self.as_const(b)) {
            return self.konst((x as i128 - y as i128) as i64);
        }
        if self.as_const(b) == Some(0) {
            return a;
        }
        if a == b {
            return self.konst(0);
        }
        self.intern(Node::Sub(a, b), iv)
    }
    pub fn sat_add(&mut self, a: TermId, b: TermId) -> TermId {
        let iv = (self.lo(a) + self.lo(b), self.hi(a) + self.hi(b));
        if Self::fits(iv) {
            return self.add_unchecked(a, b, iv);
        }
        let civ = (Self::clampi(iv.0), Self::clampi(iv.1));
        if civ.0 == civ.1 {
            return self.konst(civ.0 as i64);
        }
        let (a, b) = if a <= b { (a, b) } else { (b, a) };
        self.intern(Node::SatAdd(a, b), civ)
    }
    pub fn sat_sub(&mut self, a: TermId, b: TermId) -> TermId {
        let iv = (self.lo(a) - self.hi(b), self.hi(a) - self.lo(b));
        if Self::fits(iv) {
            return self.sub_unchecked(a, b, iv);
        }
        let civ = (Self::clampi(iv.0), Self::clampi(iv.1));
        if civ.0 == civ.1 {
            return self.konst(civ.0 as i64);
        }
        self.intern(Node::SatSub(a, b), civ)
    }
    pub fn neg(&mut self, a: TermId) -> Option<TermId> {
        let iv = (-self.hi(a), -self.lo(a));
        if !Self::fits(iv) {
            return None;
        }
        if let Some(x) = self.as_const(a) {
            return Some(self.konst(-x));
        }
        Some(self.intern(Node::Neg(a), iv))
    }
    pub fn abs(&mut self, a: TermId) -> Option<TermId> {
        let (lo, hi) = self.iv[a as usize];
        if lo >= 0 {
            return Some(a);
        }
        if hi <= 0 {
            return self.neg(a);
        }
        let m = hi.max(-lo);
        if m > IMAX {
            return None;
        }
        Some(self.intern(Node::Abs(a), (0, m)))
    }
    pub fn mulc(&mut self, a: TermId, k: i64) -> Option<TermId> {
        let k1 = k as i128;
        let (x, y) = (self.lo(a) * k1, self.hi(a) * k1);
        let iv = (x.min(y), x.max(y));
        if !Self::fits(iv) {
            return None;
        }
        if let Some(c) = self.as_const(a) {
            return Some(self.konst((c as i128 * k1) as i64));
        }
        if k == 1 {
            return Some(a);
        }
        if k == 0 {
            return Some(self.konst(0));
        }
        Some(self.intern(Node::MulC(a, k), iv))
    }
    pub fn max(&mut self, a: TermId, b: TermId) -> TermId {
        if a == b || self.lo(a) >= self.hi(b) {
            return a;
        }
        if self.lo(b) >= self.hi(a) {
            return b;
        }
        let iv = (self.lo(a).max(self.lo(b)), self.hi(a).max(self.hi(b)));
        let (a, b) = if a <= b { (a, b) } else { (b, a) };
        self.intern(Node::Max(a, b), iv)
    }
    pub fn min(&mut self, a: TermId, b: TermId) -> TermId {
        if a == b || self.hi(a) <= self.lo(b) {
            return a;
        }
        if self.hi(b) <= self.lo(a) {
            return b;
        }
        let iv = (self.lo(a).min(self.lo(b)), self.hi(a).min(self.hi(b)));
        let (a, b) = if a <= b { (a, b) } else { (b, a) };
        self.intern(Node::Min(a, b), iv)
    }
    pub fn ite(&mut self, c: TermId, a: TermId, b: TermId) -> TermId {
        if c == self.t_true {
            return a;
        }
        if c == self.t_false {
            return b;
        }
        if a == b {
            return a;
        }
        let iv = (self.lo(a).min(self.lo(b)), self.hi(a).max(self.hi(b)));
        self.intern(Node::Ite(c, a, b), iv)
    }

    // --------------------------------------------------------------- bools
    pub fn boolean(&self, b: bool) -> TermId {
        if b {
            self.t_true
        } else {
            self.t_false
        }
    }
    pub fn lt(&mut self, a: TermId, b: TermId) -> TermId {
        if a == b {
            return self.t_false;
        }
        if self.hi(a) < self.lo(b) {
            return self.t_true;
        }
        if self.lo(a) >= self.hi(b) {
            return self.t_false;
        }
        self.intern(Node::Lt(a, b), (0, 1))
    }
    pub fn le(&mut self, a: TermId, b: TermId) -> TermId {
        if a == b {
            return self.t_true;
        }
        if self.hi(a) <= self.lo(b) {
            return self.t_true;
        }
        if self.lo(a) > self.hi(b) {
            return self.t_false;
        }
        self.intern(Node::Le(a, b), (0, 1))
    }
    pub fn eq(&mut self, a: TermId, b: TermId) -> TermId {
        if a == b {
            return self.t_true;
        }
        if self.hi(a) < self.lo(b) || self.hi(b) < self.lo(a) {
            return self.t_false;
        }
        if self.lo(a) == self.hi(a) && self.iv[a as usize] == self.iv[b as usize] {
            return self.t_true;
        }
        let (a, b) = if a <= b { (a, b) } else { (b, a) };
        self.intern(Node::EqI(a, b), (0, 1))
    }
    pub fn not(&mut self, c: TermId) -> TermId {
        match self.nodes[c as usize].clone() {
            Node::True => self.t_false,
            Node::False => self.t_true,
            Node::Not(x) => x,
            Node::Lt(a, b) => self.le(b, a),
            Node::Le(a, b) => self.lt(b, a),
            _ => self.intern(Node::Not(c), (0, 1)),
        }
    }
    pub fn and(&mut self, a: TermId, b: TermId) -> TermId {
        if a == self.t_false || b == self.t_false {
            return self.t_false;
        }
        if a == self.t_true {
            return b;
        }
        if b == self.t_true || a == b {
            return a;
        }
        let (a, b) = if a <= b { (a, b) } else { (b, a) };
        self.intern(Node::And(a, b), (0, 1))
    }
    pub fn or(&mut self, a: TermId, b: TermId) -> TermId {
        if a == self.t_true || b == self.t_true {
            return self.t_true;
        }
        if a == self.t_false {
            return b;
        }
        if b == self.t_false || a == b {
            return a;
        }
        let (a, b) = if a <= b { (a, b) } else { (b, a) };
        self.intern(Node::Or(a, b), (0, 1))
    }

    // ------------------------------------------------------------ printing
    fn lit(v: i128) -> String {
        if v < 0 {
            format!("(- {})", -v)
        } else {
            format!("{}", v)
        }
    }
    /// how a term is referenced from another term's definition
    pub fn rf(&self, t: TermId) -> String {
        match &self.nodes[t as usize] {
            Node::Var(i) => format!("x{}", i),
            Node::Const(v) => Self::lit(*v as i128),
            Node::True => "true".to_string(),
            Node::False => "false".to_string(),
            _ => format!("t{}", t),
        }
    }
    pub fn children(&self, t: TermId) -> Vec<TermId> {
        match &self.nodes[t as usize] {
            Node::Add(a, b) | Node::Sub(a, b) | Node::SatAdd(a, b) | Node::SatSub(a, b) | Node::Max(a, b) | Node::Min(a, b) | Node::Lt(a, b) | Node::Le(a, b) | Node::EqI(a, b) | Node::And(a, b) | Node::Or(a, b) => vec![*a, *b],
            Node::Neg(a) | Node::Abs(a) | Node::Not(a) | Node::MulC(a, _) => vec![*a],
            Node::Ite(c, a, b) => vec![*c, *a, *b],
            _ => vec![],
        }
    }
    pub fn needs_def(&self, t: TermId) -> bool {
        !matches!(self.nodes[t as usize], Node::Var(_) | Node::Const(_) | Node::True | Node::False | Node::Dummy)
    }
    /// `(define-fun tN () Sort body)` for a non-leaf term
    pub fn definition(&self, t: TermId) -> String {
        let r = |x: &TermId| self.rf(*x);
        let clamp = |s: String| format!("(let ((s {})) (ite (> s {}) {} (ite (< s {}) {} s)))", s, Self::lit(IMAX), Self::lit(IMAX), Self::lit(IMIN), Self::lit(IMIN));
        let (sort, body) = match &self.nodes[t as usize] {
            Node::Add(a, b) => ("Int", format!("(+ {} {})", r(a), r(b))),
            Node::Sub(a, b) => ("Int", format!("(- {} {})", r(a), r(b))),
            Node::SatAdd(a, b) => ("Int", clamp(format!("(+ {} {})", r(a), r(b)))),
            Node::SatSub(a, b) => ("Int", clamp(format!("(- {} {})", r(a), r(b)))),
            Node::Neg(a) => ("Int", format!("(- {})", r(a))),
            Node::Abs(a) => ("Int", format!("(ite (< {} 0) (- {}) {})", r(a), r(a), r(a))),
            Node::Max(a, b) => ("Int", format!("(ite (>= {} {}) {} {})", r(a), r(b), r(a), r(b))),
            Node::Min(a, b) => ("Int", format!("(ite (<= {} {}) {} {})", r(a), r(b), r(a), r(b))),
            Node::Ite(c, a, b) => ("Int", format!("(ite {} {} {})", r(c), r(a), r(b))),
            Node::MulC(a, k) => ("Int", format!("(* {} {})", Self::lit(*k as i128), r(a))),
            Node::Lt(a, b) => ("Bool", format!("(< {} {})", r(a), r(b))),
            Node::Le(a, b) => ("Bool", format!("(<= {} {})", r(a), r(b))),
            Node::EqI(a, b) => ("Bool", format!("(= {} {})", r(a), r(b))),
            Node::Not(a) => ("Bool", format!("(not {})", r(a))),
            Node::And(a, b) => ("Bool", format!("(and {} {})", r(a), r(b))),
            Node::Or(a, b) => ("Bool", format!("(or {} {})", r(a), r(b))),
            n => panic!("no definition for leaf {:?}", n),
        };
        format!("(define-fun t{} () {} {})", t, sort, body)
    }

    // ---------------------------------------------------------- evaluation
    /// evaluate a term under a model (input index -> value); memoised
    pub fn eval(&self, t: TermId, model: &dyn Fn(u32) -> i64, memo: &mut HashMap<TermId, Val>) -> Val {
        if let Some(v) = memo.get(&t) {
            return *v;
        }
        let i = |s: &Self, x: &TermId, memo: &mut HashMap<TermId, Val>| match s.eval(*x, model, memo) {
            Val::I(v) => v,
            Val::B(_) => panic!("sort"),
        };
        let b = |s: &Self, x: &TermId, memo: &mut HashMap<TermId, Val>| match s.eval(*x, model, memo) {
            Val::B(v) => v,
            Val::I(_) => panic!("sort"),
        };
        let v = match &self.nodes[t as usize] {
            Node::Dummy => panic!("dummy"),
            Node::Var(ix) => Val::I(model(*ix) as i128),
            Node::Const(c) => Val::I(*c as i128),
            Node::Add(x, y) => Val::I(i(self, x, memo) + i(self, y, memo)),
            Node::Sub(x, y) => Val::I(i(self, x, memo) - i(self, y, memo)),
            Node::SatAdd(x, y) => Val::I(Self::clampi(i(self, x, memo) + i(self, y, memo))),
            Node::SatSub(x, y) => Val::I(Self::clampi(i(self, x, memo) - i(self, y, memo))),
            Node::Neg(x) => Val::I(-i(self, x, memo)),
            Node::Abs(x) => Val::I(i(self, x, memo).abs()),
            Node::Max(x, y) => Val::I(i(self, x, memo).max(i(self, y, memo))),
            Node::Min(x, y) => Val::I(i(self, x, memo).min(i(self, y, memo))),
            Node::Ite(c, x, y) => {
                if b(self, c, memo) {
                    Val::I(i(self, x, memo))
                } else {
                    Val::I(i(self, y, memo))
                }
            }
            Node::MulC(x, k) => Val::I(i(self, x, memo) * (*k as i128)),
            Node::True => Val::B(true),
            Node::False => Val::B(false),
            Node::Lt(x, y) => Val::B(i(self, x, memo) < i(self, y, memo)),
            Node::Le(x, y) => Val::B(i(self, x, memo) <= i(self, y, memo)),
            Node::EqI(x, y) => Val::B(i(self, x, memo) == i(self, y, memo)),
            Node::Not(x) => Val::B(!b(self, x, memo)),
            Node::And(x, y) => Val::B(b(self, x, memo) && b(self, y, memo)),
            Node::Or(x, y) => Val::B(b(self, x, memo) || b(self, y, memo)),
        };
        memo.insert(t, v);
        v
    }
}
