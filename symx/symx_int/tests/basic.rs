use symx_int::*;

#[test]
fn sort3_all_paths_and_obligation() {
    // sort three symbolic ints with real std sort; obligation: result sorted & max is max
    let lim = Limits { max_paths: 1000, max_secs: 30.0, max_violations: 10 };
    let rep = explore(&lim, 1, true, &[], &mut || {
        let a = SymInt::input("a", -1000, 1000);
        let b = SymInt::input("b", -1000, 1000);
        let c = SymInt::input("c", -1000, 1000);
        let mut v = vec![a, b, c];
        v.sort();
        oblige("sorted01", v[0].le_c(v[1]));
        oblige("sorted12", v[1].le_c(v[2]));
        let m = a.mx(b).mx(c);
        oblige("max", v[2].eq_c(m));
        // sat-add against sentinel
        let s = SymInt::MAX.saturating_add(a);
        oblige("satadd", s.ge_c(SymInt::lit(i64::MAX - 1000)));
    });
    println!("{}", rep.to_json());
    assert!(rep.complete);
    assert!(rep.violations.is_empty());
    assert!(rep.paths >= 6);
}

#[test]
fn finds_counterexample() {
    let lim = Limits { max_paths: 1000, max_secs: 30.0, max_violations: 10 };
    let rep = explore(&lim, 1, true, &[], &mut || {
        let a = SymInt::input("a", -1000, 1000);
        let b = SymInt::input("b", -1000, 1000);
        let m = if a > b { a } else { b };
        // wrong claim: m > a+b-500 always? false for a=b=600
        oblige("bogus", m.gt_c(a + b - SymInt::lit(500)));
    });
    println!("{}", rep.to_json());
    assert!(!rep.violations.is_empty());
}

#[test]
fn ops_match_i64_semantics_on_boundaries() {
    // every operation: concrete value == i64 semantics, and the term evaluates to that value under the model
    let vals: [i64; 9] = [i64::MIN, i64::MIN + 1, -1_000_000, -1, 0, 1, 1_000_000, i64::MAX - 1, i64::MAX];
    let lim = Limits { max_paths: 1, max_secs: 30.0, max_violations: 1000 };
    for &x in vals.iter() {
        for &y in [-1_000_000i64, -7, 0, 3, 1_000_000].iter() {
            let rep = explore(&lim, 1, true, &[("a".to_string(), y)], &mut || {
                let a = SymInt::input("a", -1_000_000, 1_000_000);
                let k = SymInt::lit(x);
                let checks: Vec<(&str, SymInt, i64)> = vec![
                    ("sat_add", k.saturating_add(a), x.saturating_add(y)),
                    ("sat_add2", a.saturating_add(k), y.saturating_add(x)),
                    ("sat_sub", k.saturating_sub(a), x.saturating_sub(y)),
                    ("sat_sub2", a.saturating_sub(k), y.saturating_sub(x)),
                    ("max", SymInt::max(k, a), x.max(y)),
                    ("min", SymInt::min(k, a), x.min(y)),
                    ("a+a", a + a, y + y),
                    ("a-7", a - SymInt::lit(7), y - 7),
                    ("neg", -a, -y),
                    ("abs", a.abs(), y.abs()),
                    ("mul3", a * SymInt::lit(3), y * 3),
                ];
                for (name, got, want) in checks {
                    assert_eq!(got.conc(), want, "{} concrete", name);
                    // symbolic: the term must equal the constant under every model that makes a == y
                    oblige(name, a.eq_c(SymInt::lit(y)).not().or(got.eq_c(SymInt::lit(want))));
                }
                // comparisons agree with i64
                assert_eq!(k < a, x < y);
                assert_eq!(k <= a, x <= y);
                assert_eq!(k == a, x == y);
                assert_eq!(k.cmp(&a), x.cmp(&y));
            });
            assert!(rep.violations.is_empty(), "{:?}", rep.violations);
            assert!(rep.refused.is_empty(), "{:?}", rep.refused);
        }
    }
}

#[test]
fn checked_add_sub_match_i64_on_boundaries() {
    // solver-decided: for every x in the range, SymInt::checked_add / checked_sub agree with i64's
    use symx_int::{explore, oblige, Limits, SymInt};
    let lim = Limits { max_paths: 200, max_secs: 30.0, max_violations: 10 };
    for k in [i64::MAX, i64::MAX - 5, 7, 0, -7, i64::MIN + 5, i64::MIN] {
        let rep = explore(&lim, 1, true, &[], &mut || {
            let x = SymInt::input("x", -1000, 1000);
            let kk = SymInt::lit(k);
            match kk.checked_add(x) {
                Some(s) => {
                    let w = k as i128 + x.conc() as i128;
                    assert!(w >= i64::MIN as i128 && w <= i64::MAX as i128, "Some although overflow");
                    oblige("sum", s.eq_c(kk.saturating_add(x)));
                    assert_eq!(s.conc() as i128, w);
                }
                None => assert!(k.checked_add(x.conc()).is_none(), "None without overflow"),
            }
            match kk.checked_sub(x) {
                Some(s) => assert_eq!(s.conc() as i128, k as i128 - x.conc() as i128),
                None => assert!(k.checked_sub(x.conc()).is_none(), "None without overflow"),
            }
        });
        assert!(rep.violations.is_empty(), "k={} {:?}", k, rep.violations.iter().map(|v| v.detail.clone()).collect::<Vec<_>>());
        assert!(rep.complete);
    }
}
