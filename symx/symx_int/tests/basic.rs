use symx_int::*;

#[test]
fn sort3_all_paths_and_obligation() {
    // sort three symbolic ints with real std sort; obligation: result sorted & max is max
    let lim = Limits { max_paths: 1000, max_secs: 30.0, max_violations: 10 };
    let rep = explore(&lim, 1, true, &[], &mut || {
        let a = SymInt::input("a", -1000, 1000);
        let b = SymInt::input("b", -1000, 1000);
        let c = SymInt::input("c", -1000, 1000);
        let mut v = vec![a, b, c];
        v.sort();
        oblige("sorted01", v[0].le_c(v[1]));
        oblige("sorted12", v[1].le_c(v[2]));
        let m = a.mx(b).mx(c);
        oblige("max", v[2].eq_c(m));
        // sat-add against sentinel
        let s = SymInt::MAX.saturating_add(a);
        oblige("satadd", s.ge_c(SymInt::lit(i64::MAX - 1000)));
    });
    println!("{}", rep.to_json());
    assert!(rep.complete);
    assert!(rep.violations.is_empty());
    assert!(rep.paths >= 6);
}

#[test]
fn finds_counterexample() {
    let lim = Limits { max_paths: 1000, max_secs: 30.0, max_violations: 10 };
    let rep = explore(&lim, 1, true, &[], &mut || {
        let a = SymInt::input("a", -1000, 1000);
        let b = SymInt::input("b", -1000, 1000);
        let m = if a > b { a } else { b };
        // wrong claim: m > a+b-500 always? false for a=b=600
        oblige("bogus", m.gt_c(a + b - SymInt::lit(500)));
    });
    println!("{}", rep.to_json());
    assert!(!rep.violations.is_empty());
}
