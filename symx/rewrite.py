#!/usr/bin/env python3
"""Regenerate the type-substituted shadow copy of /repo/ddo/src.

usage: rewrite.py <repo> <outdir> [--sched]

Writes <outdir>/ddo/{Cargo.toml,src/...}, <outdir>/Cargo.lock (copy of the
repository's lock file) and <outdir>/rewrite_report.json (rule hit counts and
a sha256 of the generated sources, used as build-cache key).

Rules (DESIGN.md 3.2):
  1. \\bisize\\b -> SymInt in every .rs file, plus one `use symx_int::SymInt;`
  2. the body of the default method `Solver::gap` is cut (float/i128 casts of the
     cost type; gap is decided by Kani on the unmodified crate, E2 never calls it)
  3. `node.value_bot = 0;` -> `SymInt::lit(0)`                   (clean/pooled)
  4. `match x { isize::MAX => .., isize::MIN => .., _ => .. }` -> if/else chain
  5. (--sched) `symx_sched::worker_enter(i)` inserted as first statement of the
     worker closure of ParallelSolver::maximize
A fix-up whose site is absent is reported, not fatal: the compiler decides.
"""
import hashlib, json, os, re, shutil, sys


def rewrite_file(rel, text, sched, hits):
    orig = text
    # rule 4 first (mentions isize::MAX / MIN literally)
    pat4 = re.compile(
        r"match\s+x\s*\{\s*isize::MAX\s*=>\s*(?P<a>[^,]+),\s*isize::MIN\s*=>\s*(?P<b>[^,]+),\s*_\s*=>\s*(?P<c>[^\n}]+)\n?\s*\}", re.S)
    def r4(m):
        hits['rule4_extreme_match'] += 1
        return ("if x == isize::MAX { %s } else if x == isize::MIN { %s } else { %s }"
                % (m.group('a').strip(), m.group('b').strip(), m.group('c').strip()))
    text = pat4.sub(r4, text)
    # rule 2: Solver::gap mixes the cost type with float / i128 casts; it is decided
    # bit-precisely by the Kani harness on the unmodified crate, E2 never calls it,
    # so its body is cut out of the shadow copy (robust against edits of gap).
    if rel.endswith("abstraction/solver.rs"):
        m = re.search(r"fn gap\(&self\) -> f32 \{", text)
        if m:
            i = m.end()
            depth = 1
            while depth > 0 and i < len(text):
                depth += {"{": 1, "}": -1}.get(text[i], 0)
                i += 1
            text = text[:m.end()] + " let _ = (self.best_upper_bound(), self.best_lower_bound()); f32::NAN /* cut: outside E2, see rewrite.py rule 2 */ }" + text[i:]
            hits['rule2_gap_cut'] += 1
    # rule 3
    n3 = len(re.findall(r"\.value_bot\s*=\s*0\s*;", text))
    if n3:
        hits['rule3_value_bot_zero'] += n3
        text = re.sub(r"\.value_bot\s*=\s*0\s*;", ".value_bot = SymInt::lit(0);", text)
    # rule 5
    if sched and rel.endswith("solver/parallel.rs"):
        pat5 = re.compile(r"(s\.spawn\(move \|\| \{\n)")
        if len(pat5.findall(text)) == 1:
            hits['rule5_worker_enter'] += 1
            text = pat5.sub(r"\1                    let _symx_guard = symx_sched::worker_enter(i);\n", text)
    # rule 1
    n1 = len(re.findall(r"\bisize\b", text))
    if n1:
        hits['rule1_isize'] += n1
        text = re.sub(r"\bisize\b", "SymInt", text)
    if text != orig and not rel.endswith("lib.rs"):
        lines = text.split("\n")
        for i, l in enumerate(lines):
            if re.match(r"^(pub\s+)?(use|mod)\s", l):
                lines.insert(i, "#[allow(unused_imports)] use symx_int::SymInt;")
                break
        else:
            lines.insert(0, "#[allow(unused_imports)] use symx_int::SymInt;")
        text = "\n".join(lines)
    return text


def main():
    repo, out = sys.argv[1], sys.argv[2]
    sched = "--sched" in sys.argv[3:]
    src = os.path.join(repo, "ddo", "src")
    dst = os.path.join(out, "ddo")
    if os.path.exists(dst):
        shutil.rmtree(dst)
    os.makedirs(os.path.join(dst, "src"))
    hits = dict(rule1_isize=0, rule2_gap_cut=0, rule3_value_bot_zero=0, rule4_extreme_match=0, rule5_worker_enter=0)
    h = hashlib.sha256()
    files = []
    for root, _, fs in os.walk(src):
        for f in sorted(fs):
            if not f.endswith(".rs"):
                continue
            p = os.path.join(root, f)
            rel = os.path.relpath(p, src)
            text = open(p, encoding="utf-8").read()
            new = rewrite_file(rel, text, sched, hits)
            q = os.path.join(dst, "src", rel)
            os.makedirs(os.path.dirname(q), exist_ok=True)
            open(q, "w", encoding="utf-8").write(new)
            files.append(rel)
            h.update(rel.encode()); h.update(b"\0"); h.update(new.encode()); h.update(b"\0")
    here = os.path.dirname(os.path.abspath(__file__))
    deps = """fxhash           = "0.2"
binary-heap-plus = "0.5"
derive_builder   = "0.12"
num_cpus         = "1.15"
compare          = "0.1"
symx_int         = { path = "%s/symx_int" }
""" % here
    if sched:
        deps += 'dashmap          = { path = "%s/facades/dashmap" }\n' % here
        deps += 'parking_lot      = { path = "%s/facades/parking_lot" }\n' % here
        deps += 'symx_sched       = { path = "%s/symx_sched" }\n' % here
    else:
        deps += 'dashmap          = "5.4"\nparking_lot      = "0.12"\n'
    open(os.path.join(dst, "Cargo.toml"), "w").write("""[package]
name    = "ddo"
version = "2.0.0"
edition = "2021"

[lib]
doctest = false
test = false

[dependencies]
""" + deps)
    lock = os.path.join(repo, "Cargo.lock")
    if os.path.exists(lock):
        shutil.copy(lock, os.path.join(out, "Cargo.lock"))
    h.update(b"sched" if sched else b"plain")
    rep = dict(hits=hits, files=len(files), sha256=h.hexdigest(), sched=sched)
    json.dump(rep, open(os.path.join(out, "rewrite_report.json"), "w"), indent=1)
    print(json.dumps(rep))


if __name__ == "__main__":
    main()
