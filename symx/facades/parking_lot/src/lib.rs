//! Facade with the subset of parking_lot's API that ddo uses (and a bit more);
//! every synchronisation operation of a scheduled worker goes through
//! symx_sched first.  Threads that are not scheduled workers (the main thread
//! before / after the workers run) pass straight through to std primitives.
use std::ops::{Deref, DerefMut};

pub struct Mutex<T: ?Sized> {
    inner: std::sync::Mutex<T>,
}
pub struct MutexGuard<'a, T: ?Sized> {
    m: &'a Mutex<T>,
    g: Option<std::sync::MutexGuard<'a, T>>,
}
impl<T> Mutex<T> {
    pub const fn new(v: T) -> Self {
        Mutex { inner: std::sync::Mutex::new(v) }
    }
    pub fn into_inner(self) -> T {
        match self.inner.into_inner() {
            Ok(v) => v,
            Err(p) => p.into_inner(),
        }
    }
}
impl<T: ?Sized> Mutex<T> {
    fn addr(&self) -> usize {
        self as *const Self as *const u8 as usize
    }
    fn real(&self) -> std::sync::MutexGuard<'_, T> {
        match self.inner.lock() {
            Ok(g) => g,
            Err(p) => p.into_inner(),
        }
    }
    pub fn lock(&self) -> MutexGuard<'_, T> {
        symx_sched::mutex_lock(self.addr());
        MutexGuard { m: self, g: Some(self.real()) }
    }
    pub fn try_lock(&self) -> Option<MutexGuard<'_, T>> {
        Some(self.lock())
    }
    pub fn get_mut(&mut self) -> &mut T {
        match self.inner.get_mut() {
            Ok(v) => v,
            Err(p) => p.into_inner(),
        }
    }
}
impl<T: Default> Default for Mutex<T> {
    fn default() -> Self {
        Mutex::new(T::default())
    }
}
impl<T: ?Sized + std::fmt::Debug> std::fmt::Debug for Mutex<T> {
    fn fmt(&self, f: &mut std::fmt::Formatter<'_>) -> std::fmt::Result {
        f.write_str("Mutex { .. }")
    }
}
impl<T: ?Sized> Deref for MutexGuard<'_, T> {
    type Target = T;
    fn deref(&self) -> &T {
        self.g.as_ref().unwrap()
    }
}
impl<T: ?Sized> DerefMut for MutexGuard<'_, T> {
    fn deref_mut(&mut self) -> &mut T {
        self.g.as_mut().unwrap()
    }
}
impl<T: ?Sized> Drop for MutexGuard<'_, T> {
    fn drop(&mut self) {
        self.g.take();
        symx_sched::mutex_unlock(self.m.addr());
    }
}

#[derive(Default)]
pub struct Condvar {
    _x: u8,
}
impl Condvar {
    pub const fn new() -> Self {
        Condvar { _x: 0 }
    }
    fn addr(&self) -> usize {
        self as *const Self as usize
    }
    pub fn wait<T: ?Sized>(&self, guard: &mut MutexGuard<'_, T>) {
        if symx_sched::me().is_none() {
            panic!("SYMX-INTERNAL: condvar wait from an unscheduled thread");
        }
        guard.g.take();
        symx_sched::condvar_wait(self.addr(), guard.m.addr());
        guard.g = Some(guard.m.real());
    }
    pub fn notify_all(&self) -> usize {
        symx_sched::condvar_notify_all(self.addr());
        0
    }
    pub fn notify_one(&self) -> bool {
        // conservative: modelled as notify_all is NOT sound for lost-wake-up detection,
        // ddo does not use notify_one; refuse rather than guess
        panic!("SYMX-REFUSE: Condvar::notify_one is not modelled by the scheduler facade");
    }
}
impl std::fmt::Debug for Condvar {
    fn fmt(&self, f: &mut std::fmt::Formatter<'_>) -> std::fmt::Result {
        f.write_str("Condvar")
    }
}

pub struct RwLock<T: ?Sized> {
    inner: std::sync::RwLock<T>,
}
impl<T> RwLock<T> {
    pub const fn new(v: T) -> Self {
        RwLock { inner: std::sync::RwLock::new(v) }
    }
}
impl<T: ?Sized> RwLock<T> {
    pub fn read(&self) -> std::sync::RwLockReadGuard<'_, T> {
        symx_sched::yield_point();
        match self.inner.read() {
            Ok(g) => g,
            Err(p) => p.into_inner(),
        }
    }
    pub fn write(&self) -> std::sync::RwLockWriteGuard<'_, T> {
        symx_sched::yield_point();
        match self.inner.write() {
            Ok(g) => g,
            Err(p) => p.into_inner(),
        }
    }
}
