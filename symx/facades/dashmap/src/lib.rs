//! Facade named `dashmap`: forwards to the real crate after a scheduler yield
//! point, so that one worker's map call can interleave with another's at call
//! granularity (atomicity INSIDE one call is the real DashMap's and is trusted).
use std::hash::{BuildHasher, Hash};
use std::ops::Deref;

pub mod mapref {
    pub use real_dashmap::mapref::*;
}
pub use real_dashmap::{DashSet, ReadOnlyView, TryReserveError};

pub struct DashMap<K, V, S = std::collections::hash_map::RandomState> {
    inner: real_dashmap::DashMap<K, V, S>,
}
impl<K: Eq + Hash, V, S: BuildHasher + Clone + Default> Default for DashMap<K, V, S> {
    fn default() -> Self {
        DashMap { inner: real_dashmap::DashMap::with_hasher(S::default()) }
    }
}
impl<K: Eq + Hash, V> DashMap<K, V, std::collections::hash_map::RandomState> {
    pub fn new() -> Self {
        DashMap { inner: real_dashmap::DashMap::new() }
    }
}
impl<K: Eq + Hash, V, S: BuildHasher + Clone> DashMap<K, V, S> {
    pub fn with_hasher(h: S) -> Self {
        DashMap { inner: real_dashmap::DashMap::with_hasher(h) }
    }
    pub fn get<Q>(&self, k: &Q) -> Option<mapref::one::Ref<'_, K, V, S>>
    where
        K: std::borrow::Borrow<Q>,
        Q: Hash + Eq + ?Sized,
    {
        symx_sched::map_yield_point();
        self.inner.get(k)
    }
    pub fn get_mut<Q>(&self, k: &Q) -> Option<mapref::one::RefMut<'_, K, V, S>>
    where
        K: std::borrow::Borrow<Q>,
        Q: Hash + Eq + ?Sized,
    {
        symx_sched::map_yield_point();
        self.inner.get_mut(k)
    }
    pub fn contains_key<Q>(&self, k: &Q) -> bool
    where
        K: std::borrow::Borrow<Q>,
        Q: Hash + Eq + ?Sized,
    {
        symx_sched::map_yield_point();
        self.inner.contains_key(k)
    }
    pub fn insert(&self, k: K, v: V) -> Option<V> {
        symx_sched::map_yield_point();
        self.inner.insert(k, v)
    }
    pub fn remove<Q>(&self, k: &Q) -> Option<(K, V)>
    where
        K: std::borrow::Borrow<Q>,
        Q: Hash + Eq + ?Sized,
    {
        symx_sched::map_yield_point();
        self.inner.remove(k)
    }
    pub fn entry(&self, k: K) -> mapref::entry::Entry<'_, K, V, S> {
        symx_sched::map_yield_point();
        self.inner.entry(k)
    }
    pub fn clear(&self) {
        symx_sched::map_yield_point();
        self.inner.clear()
    }
    pub fn alter<Q>(&self, k: &Q, f: impl FnOnce(&K, V) -> V)
    where
        K: std::borrow::Borrow<Q>,
        Q: Hash + Eq + ?Sized,
    {
        symx_sched::map_yield_point();
        self.inner.alter(k, f)
    }
    pub fn retain(&self, f: impl FnMut(&K, &mut V) -> bool) {
        symx_sched::map_yield_point();
        self.inner.retain(f)
    }
}
/// everything else (len, iter, ...) goes to the real map un-yielded
impl<K, V, S> Deref for DashMap<K, V, S> {
    type Target = real_dashmap::DashMap<K, V, S>;
    fn deref(&self) -> &Self::Target {
        &self.inner
    }
}
impl<K: Eq + Hash + std::fmt::Debug, V: std::fmt::Debug, S: BuildHasher + Clone> std::fmt::Debug for DashMap<K, V, S> {
    fn fmt(&self, f: &mut std::fmt::Formatter<'_>) -> std::fmt::Result {
        self.inner.fmt(f)
    }
}
