#!/bin/bash
# dev helper: build the symx harness against /repo + a patch, in /verif/.cache/devmut
set -e
P=$1; SCHED=${2:-}
rm -rf /tmp/mrepo; mkdir -p /tmp/mrepo/ddo; cp -r /repo/ddo/src /tmp/mrepo/ddo/; cp /repo/Cargo.lock /tmp/mrepo/
(cd /tmp/mrepo && git init -q . 2>/dev/null; patch -p1 -s < $P)
D=/verif/.cache/devmut; mkdir -p $D/harness
python3 /verif/symx/rewrite.py /tmp/mrepo $D $SCHED > /dev/null
cp /verif/.cache/dev/Cargo.toml $D/; cp /verif/.cache/dev/harness/Cargo.toml $D/harness/; sed -i "s/^symx = \[\]/symx = []\nsched = []/" $D/harness/Cargo.toml
cd $D && CARGO_NET_OFFLINE=true cargo build --release --features symx -p harness 2>&1 | grep -E '^error' -A8 | head -40
echo $D/target/release/harness
