#!/bin/bash
# runs every registered quick check for the given VERIF_SEED values against $VERIF_REPO (default /repo); one line per check
for SEED in "$@"; do
  for p in $(python3 -c "import json; print(' '.join(c['property_id'] for c in json.load(open('MANIFEST.json'))['checks']))"); do
    S=$(date +%s); VERIF_SEED=$SEED ./check $p quick > /tmp/sweep_${SEED}_$p.log 2>&1; RC=$?; E=$(( $(date +%s) - S ))
    echo "seed=$SEED $p exit=$RC ${E}s $(grep -E '^\[' /tmp/sweep_${SEED}_$p.log | tail -1 | cut -c1-160)"
    grep -E '^(VIOLATION|KNOWN-FINDING|INCONCLUSIVE)' /tmp/sweep_${SEED}_$p.log | cut -c1-300
    grep -B2 -E '^VIOLATION' /tmp/sweep_${SEED}_$p.log | grep -E 'counterexample' | cut -c1-300
  done
done
