//! E1: Kani / CBMC harnesses over leaf kernels of the UNMODIFIED ddo crate
//! (path dependency on /repo/ddo).  Bit-precise: wrapping/overflow-checked
//! machine integers and IEEE-754 floats.  One harness per concrete
//! instantiation; every harness has a `kani::cover!` reachability witness.
#![allow(dead_code)]
use ddo::*;
use std::cmp::Ordering;
use std::sync::Arc;

// ------------------------------------------------------------------ C17: gap
pub struct StubSolver {
    pub lb: isize,
    pub ub: isize,
}
impl Solver for StubSolver {
    fn maximize(&mut self) -> Completion {
        Completion { is_exact: false, best_value: None }
    }
    fn best_value(&self) -> Option<isize> {
        None
    }
    fn best_solution(&self) -> Option<Solution> {
        None
    }
    fn best_lower_bound(&self) -> isize {
        self.lb
    }
    fn best_upper_bound(&self) -> isize {
        self.ub
    }
    fn set_primal(&mut self, _: isize, _: Solution) {}
    fn explored(&self) -> usize {
        0
    }
}
/// the five clauses of C17 for one (lb, ub) pair; Err(clause) when violated
pub fn gap_clauses(lb: isize, ub: isize) -> Result<(), &'static str> {
    let g = StubSolver { lb, ub }.gap();
    if g.is_nan() {
        return Err("gap is NaN");
    }
    if g < 0.0 {
        return Err("gap is negative");
    }
    if (ub == isize::MAX || lb == isize::MIN) && g != 1.0 {
        return Err("gap is not 1 while a bound is infinite");
    }
    if ub != isize::MAX && lb != isize::MIN {
        if (g == 0.0) != (lb == ub) {
            return Err("gap == 0 does not coincide with lb == ub");
        }
        if ((lb >= 0 && ub >= 0) || (lb <= 0 && ub <= 0)) && g > 1.0 {
            return Err("gap exceeds 1 although both bounds have the same sign");
        }
    }
    Ok(())
}

#[cfg(kani)]
#[kani::proof]
fn c17_gap_all_pairs() {
    let lb: isize = kani::any();
    let ub: isize = kani::any();
    kani::assume(lb <= ub);
    kani::cover!(lb < 0 && ub > 0, "mixed signs reachable");
    let r = gap_clauses(lb, ub);
    assert!(r.is_ok(), "C17 clause violated");
}

// ------------------------------------------------------------------ C13(a): width combinators
#[derive(Clone, Copy)]
pub struct W(pub usize);
impl WidthHeuristic<u8> for W {
    fn max_width(&self, _: &SubProblem<u8>) -> usize {
        self.0
    }
}
fn sp(value: isize, ub: isize, depth: usize) -> SubProblem<u8> {
    SubProblem { state: Arc::new(0u8), value, path: vec![], ub, depth }
}

#[cfg(kani)]
#[kani::proof]
fn c13_times_divby_never_zero_16bit() {
    let k: usize = kani::any();
    let w: usize = kani::any();
    kani::assume(k < (1 << 16) && w < (1 << 16));
    let s = sp(0, 0, 0);
    kani::cover!(k == 0 && w > 0, "zero factor reachable");
    assert!(Times(k, W(w)).max_width(&s) >= 1, "Times yields zero");
    if k >= 1 {
        assert!(DivBy(k, W(w)).max_width(&s) >= 1, "DivBy yields zero");
        kani::cover!(w < k, "quotient zero reachable");
    }
    std::mem::forget(s);
}

#[cfg(kani)]
#[kani::proof]
fn c13_nested_combinators_never_zero() {
    let k1: usize = kani::any();
    let k2: usize = kani::any();
    let w: usize = kani::any();
    kani::assume(k1 < 256 && k2 >= 1 && k2 < 256 && w < (1 << 16));
    let s = sp(0, 0, 0);
    kani::cover!(k1 == 0, "outer zero factor reachable");
    assert!(Times(k1, DivBy(k2, W(w))).max_width(&s) >= 1);
    assert!(DivBy(k2, Times(k1, W(w))).max_width(&s) >= 1);
    std::mem::forget(s);
}

#[cfg(kani)]
#[kani::proof]
fn c13_fixed_factors_any_width() {
    // factor from a fixed set, inner width over the full 64-bit range (no overflow assumed)
    let ks = [0usize, 1, 2, 3, 5, 8];
    let i: usize = kani::any();
    kani::assume(i < ks.len());
    let k = ks[i];
    let w: usize = kani::any();
    kani::assume(k == 0 || w <= usize::MAX / k);
    let s = sp(0, 0, 0);
    kani::cover!(w == usize::MAX && k == 1, "extreme width reachable");
    assert!(Times(k, W(w)).max_width(&s) >= 1);
    if k >= 1 {
        assert!(DivBy(k, W(w)).max_width(&s) >= 1);
    }
    std::mem::forget(s);
}

#[cfg(kani)]
#[kani::proof]
fn c13_times_pow2_full_range() {
    // factor and inner width are powers of two over the FULL range: products that are multiples of 2^64 included.
    // In the profile Kani models an overflowing `*` panics: that is "no width", not a width of zero, so the failed check
    // "attempt to multiply with overflow" is EXPECTED here (vlib/kani.py: EXPECTED_FAILS) and only the assertions below count
    let k: u8 = kani::any();
    let m: u8 = kani::any();
    kani::assume(k < 64 && m < 64);
    let s = sp(0, 0, 0);
    kani::cover!(k as u32 + m as u32 >= 64, "wrapping product reachable");
    assert!(Times(1usize << k, W(1usize << m)).max_width(&s) >= 1, "Times yields zero (full range)");
    assert!(Times(1usize << k, Times(1usize << m, W(1))).max_width(&s) >= 1, "nested Times yields zero (full range)");
    std::mem::forget(s);
}

// ------------------------------------------------------------------ C10(a): dominance comparators
pub struct Dom3 {
    pub use_val: bool,
}
impl Dominance for Dom3 {
    type State = [isize; 3];
    type Key = u8;
    fn get_key(&self, _: Arc<Self::State>) -> Option<u8> {
        Some(0)
    }
    fn nb_dimensions(&self, _: &Self::State) -> usize {
        3
    }
    fn get_coordinate(&self, s: &Self::State, i: usize) -> isize {
        s[i]
    }
    fn use_value(&self) -> bool {
        self.use_val
    }
}
/// reference definition of Pareto comparison (independent of the implementation)
pub fn reference_partial_cmp(use_val: bool, a: &[isize; 3], va: isize, b: &[isize; 3], vb: isize) -> Option<(Ordering, bool)> {
    let mut ge = a[0] >= b[0] && a[1] >= b[1] && a[2] >= b[2];
    let mut le = a[0] <= b[0] && a[1] <= b[1] && a[2] <= b[2];
    let coords_equal = ge && le;
    if use_val {
        ge = ge && va >= vb;
        le = le && va <= vb;
    }
    let only_val = use_val && coords_equal && va != vb;
    if ge && le {
        Some((Ordering::Equal, false))
    } else if ge {
        Some((Ordering::Greater, only_val))
    } else if le {
        Some((Ordering::Less, only_val))
    } else {
        None
    }
}
pub fn dominance_clauses(use_val: bool, a: [isize; 3], va: isize, b: [isize; 3], vb: isize) -> Result<(), &'static str> {
    let d = Dom3 { use_val };
    let got = d.partial_cmp(&a, va, &b, vb).map(|r| (r.ordering, r.only_val_diff));
    let want = reference_partial_cmp(use_val, &a, va, &b, vb);
    if got != want {
        return Err("partial_cmp differs from the Pareto reference definition");
    }
    if let Some((Ordering::Greater, _)) = got {
        if d.cmp(&a, va, &b, vb) != Ordering::Greater {
            return Err("a dominates b but the sorting comparator does not rank a first");
        }
    }
    if let Some((Ordering::Less, _)) = got {
        if d.cmp(&a, va, &b, vb) != Ordering::Less {
            return Err("b dominates a but the sorting comparator does not rank b first");
        }
    }
    if d.cmp(&a, va, &b, vb) != d.cmp(&b, vb, &a, va).reverse() {
        return Err("sorting comparator is not antisymmetric");
    }
    Ok(())
}

#[cfg(kani)]
#[kani::proof]
#[kani::unwind(5)]
fn c10_partial_cmp_and_cmp_kernels() {
    let use_val: bool = kani::any();
    let a: [isize; 3] = kani::any();
    let b: [isize; 3] = kani::any();
    let va: isize = kani::any();
    let vb: isize = kani::any();
    kani::cover!(a[0] > b[0] && a[1] == b[1] && a[2] < b[2], "incomparable with a tie in the middle reachable");
    let r = dominance_clauses(use_val, a, va, b, vb);
    assert!(r.is_ok(), "C10 kernel clause violated");
}

#[cfg(kani)]
#[kani::proof]
#[kani::unwind(5)]
fn c10_cmp_transitive() {
    let use_val: bool = kani::any();
    let d = Dom3 { use_val };
    let a: [isize; 3] = kani::any();
    let b: [isize; 3] = kani::any();
    let c: [isize; 3] = kani::any();
    let (va, vb, vc): (isize, isize, isize) = (kani::any(), kani::any(), kani::any());
    let ab = d.cmp(&a, va, &b, vb);
    let bc = d.cmp(&b, vb, &c, vc);
    kani::cover!(ab == Ordering::Less && bc == Ordering::Less, "chain reachable");
    if ab != Ordering::Greater && bc != Ordering::Greater {
        assert!(d.cmp(&a, va, &c, vc) != Ordering::Greater, "cmp is not transitive");
    }
}

// ------------------------------------------------------------------ C09(a): must_explore, Threshold order
pub struct StubCache {
    pub t: Option<Threshold>,
}
impl Cache for StubCache {
    type State = u8;
    fn initialize(&mut self, _: &dyn Problem<State = u8>) {}
    fn get_threshold(&self, _: &u8, _: usize) -> Option<Threshold> {
        self.t
    }
    fn update_threshold(&self, _: Arc<u8>, _: usize, _: isize, _: bool) {}
    fn clear_layer(&self, _: usize) {}
    fn clear(&self) {}
}
pub fn must_explore_clause(t: Option<(isize, bool)>, value: isize) -> Result<(), &'static str> {
    let c = StubCache { t: t.map(|(value, explored)| Threshold { value, explored }) };
    let s = sp(value, isize::MAX, 0);
    let got = c.must_explore(&s);
    std::mem::forget(s);
    let want = match t {
        None => true,
        Some((tv, explored)) => value > tv || (value == tv && !explored),
    };
    if got != want {
        return Err("must_explore differs from: value > theta or (value == theta and not explored)");
    }
    Ok(())
}
pub fn threshold_max_clause(v1: isize, e1: bool, v2: isize, e2: bool) -> Result<(), &'static str> {
    let m = Threshold { value: v1, explored: e1 }.max(Threshold { value: v2, explored: e2 });
    let want = if v1 > v2 || (v1 == v2 && e1 && !e2) { (v1, e1) } else { (v2, e2) };
    if (m.value, m.explored) != want {
        return Err("Threshold max is not the lexicographic (value, explored) maximum");
    }
    Ok(())
}

#[cfg(kani)]
#[kani::proof]
fn c09_must_explore_kernel() {
    let has: bool = kani::any();
    let tv: isize = kani::any();
    let te: bool = kani::any();
    let value: isize = kani::any();
    kani::cover!(has && value == tv && te, "tie with explored threshold reachable");
    assert!(must_explore_clause(if has { Some((tv, te)) } else { None }, value).is_ok());
}

#[cfg(kani)]
#[kani::proof]
fn c18_threshold_max_kernel() {
    let (v1, e1, v2, e2): (isize, bool, isize, bool) = (kani::any(), kani::any(), kani::any(), kani::any());
    kani::cover!(v1 == v2 && e1 != e2, "value tie reachable");
    assert!(threshold_max_clause(v1, e1, v2, e2).is_ok());
}

// ------------------------------------------------------------------ C11(a): MaxUB ordering
pub struct ByState;
impl StateRanking for ByState {
    type State = u8;
    fn compare(&self, a: &u8, b: &u8) -> Ordering {
        a.cmp(b)
    }
}
pub fn maxub_clause(ub1: isize, v1: isize, s1: u8, ub2: isize, v2: isize, s2: u8) -> Result<(), &'static str> {
    let r = ByState;
    let m = MaxUB::new(&r);
    let a = SubProblem { state: Arc::new(s1), value: v1, path: vec![], ub: ub1, depth: 0 };
    let b = SubProblem { state: Arc::new(s2), value: v2, path: vec![], ub: ub2, depth: 0 };
    let got = m.compare(&a, &b);
    let back = m.compare(&b, &a);
    std::mem::forget(a);
    std::mem::forget(b);
    let want = (ub1, v1, s1).cmp(&(ub2, v2, s2));
    if got != want {
        return Err("MaxUB is not the lexicographic order (ub, value, state ranking)");
    }
    if back != got.reverse() {
        return Err("MaxUB is not antisymmetric");
    }
    Ok(())
}
#[cfg(kani)]
#[kani::proof]
fn c11_maxub_kernel() {
    let (ub1, v1, s1, ub2, v2, s2): (isize, isize, u8, isize, isize, u8) = (kani::any(), kani::any(), kani::any(), kani::any(), kani::any(), kani::any());
    kani::cover!(ub1 == ub2 && v1 == v2 && s1 < s2, "double tie reachable");
    assert!(maxub_clause(ub1, v1, s1, ub2, v2, s2).is_ok());
}

// ------------------------------------------------------------------ C11(a): SimpleFringe, three symbolic pushes
/// pushes three sub-problems with the given (ub, value) and returns the pop order (indices)
pub fn simple_fringe_pop_order(k: [(isize, isize); 3]) -> [usize; 3] {
    let r = ByState;
    let mut f = SimpleFringe::new(MaxUB::new(&r));
    for (i, (ub, v)) in k.iter().enumerate() {
        f.push(SubProblem { state: Arc::new(i as u8), value: *v, path: vec![], ub: *ub, depth: 0 });
    }
    let mut out = [9usize; 3];
    for slot in out.iter_mut() {
        let n = f.pop().expect("three elements were pushed");
        *slot = *n.state as usize;
        std::mem::forget(n);
    }
    assert!(f.pop().is_none());
    assert!(f.len() == 0);
    std::mem::forget(f);
    out
}
pub fn simple_fringe_clause(k: [(isize, isize); 3]) -> Result<(), &'static str> {
    let o = simple_fringe_pop_order(k);
    if !(o.contains(&0) && o.contains(&1) && o.contains(&2)) {
        return Err("a sub-problem was lost or invented");
    }
    for w in 0..2 {
        let (a, b) = (k[o[w]], k[o[w + 1]]);
        // non-increasing (ub, value, state) order
        if (a.0, a.1, o[w]) < (b.0, b.1, o[w + 1]) {
            return Err("pop order is not non-increasing in (ub, value, ranking)");
        }
    }
    Ok(())
}
#[cfg(kani)]
#[kani::proof]
#[kani::unwind(9)]
fn c11_simple_fringe_three_pushes() {
    let k: [(isize, isize); 3] = [(kani::any(), kani::any()), (kani::any(), kani::any()), (kani::any(), kani::any())];
    kani::cover!(k[0].0 == k[1].0 && k[0].1 < k[1].1, "ub tie broken by value reachable");
    assert!(simple_fringe_clause(k).is_ok());
}
