//! Native replay of Kani counterexamples: `replay <harness> <hex byte stream>`.
//! The byte stream is the concatenation of the concrete values Kani printed
//! for the harness' `kani::any()` calls, in call order (little endian).
//! exit 1 + message if the clause is violated natively, 0 otherwise.
use ddo_kani::*;

struct Rd {
    b: Vec<u8>,
    i: usize,
}
impl Rd {
    fn take(&mut self, n: usize) -> &[u8] {
        let s = &self.b[self.i..self.i + n];
        self.i += n;
        s
    }
    fn isize(&mut self) -> isize {
        isize::from_le_bytes(self.take(8).try_into().unwrap())
    }
    fn usize(&mut self) -> usize {
        usize::from_le_bytes(self.take(8).try_into().unwrap())
    }
    fn bool(&mut self) -> bool {
        self.take(1)[0] != 0
    }
    fn u8(&mut self) -> u8 {
        self.take(1)[0]
    }
    fn arr3(&mut self) -> [isize; 3] {
        [self.isize(), self.isize(), self.isize()]
    }
}

fn main() {
    let a: Vec<String> = std::env::args().collect();
    let h = a[1].as_str();
    let hex = a.get(2).cloned().unwrap_or_default();
    let b: Vec<u8> = (0..hex.len() / 2).map(|i| u8::from_str_radix(&hex[2 * i..2 * i + 2], 16).unwrap()).collect();
    let mut r = Rd { b, i: 0 };
    let res: Result<(), String> = match h {
        "c17_gap_all_pairs" => {
            let (lb, ub) = (r.isize(), r.isize());
            println!("inputs: lb={} ub={} gap={}", lb, ub, { use ddo::Solver; StubSolver { lb, ub }.gap() });
            gap_clauses(lb, ub).map_err(|e| e.to_string())
        }
        "c10_partial_cmp_and_cmp_kernels" => {
            let use_val = r.bool();
            let a = r.arr3();
            let b = r.arr3();
            let (va, vb) = (r.isize(), r.isize());
            println!("inputs: use_value={} a={:?} va={} b={:?} vb={}", use_val, a, va, b, vb);
            dominance_clauses(use_val, a, va, b, vb).map_err(|e| e.to_string())
        }
        "c10_cmp_transitive" => {
            use ddo::Dominance;
            use std::cmp::Ordering;
            let use_val = r.bool();
            let (a, b, c) = (r.arr3(), r.arr3(), r.arr3());
            let (va, vb, vc) = (r.isize(), r.isize(), r.isize());
            println!("inputs: use_value={} a={:?}/{} b={:?}/{} c={:?}/{}", use_val, a, va, b, vb, c, vc);
            let d = Dom3 { use_val };
            if d.cmp(&a, va, &b, vb) != Ordering::Greater && d.cmp(&b, vb, &c, vc) != Ordering::Greater && d.cmp(&a, va, &c, vc) == Ordering::Greater {
                Err("cmp is not transitive".to_string())
            } else {
                Ok(())
            }
        }
        "c09_must_explore_kernel" => {
            let has = r.bool();
            let tv = r.isize();
            let te = r.bool();
            let v = r.isize();
            println!("inputs: threshold={:?} value={}", if has { Some((tv, te)) } else { None }, v);
            must_explore_clause(if has { Some((tv, te)) } else { None }, v).map_err(|e| e.to_string())
        }
        "c18_threshold_max_kernel" => {
            let (v1, e1, v2, e2) = (r.isize(), r.bool(), r.isize(), r.bool());
            println!("inputs: ({}, {}) ({}, {})", v1, e1, v2, e2);
            threshold_max_clause(v1, e1, v2, e2).map_err(|e| e.to_string())
        }
        "c11_maxub_kernel" => {
            let (ub1, v1, s1, ub2, v2, s2) = (r.isize(), r.isize(), r.u8(), r.isize(), r.isize(), r.u8());
            println!("inputs: ({}, {}, {}) ({}, {}, {})", ub1, v1, s1, ub2, v2, s2);
            maxub_clause(ub1, v1, s1, ub2, v2, s2).map_err(|e| e.to_string())
        }
        "c11_simple_fringe_three_pushes" => {
            let k = [(r.isize(), r.isize()), (r.isize(), r.isize()), (r.isize(), r.isize())];
            println!("inputs: (ub, value) = {:?}", k);
            simple_fringe_clause(k).map_err(|e| e.to_string())
        }
        "c13_times_divby_never_zero_16bit" => {
            use ddo::{DivBy, SubProblem, Times, WidthHeuristic};
            let (k, w) = (r.usize(), r.usize());
            println!("inputs: k={} w={}", k, w);
            let s = SubProblem { state: std::sync::Arc::new(0u8), value: 0, path: vec![], ub: 0, depth: 0 };
            if Times(k, W(w)).max_width(&s) < 1 || (k >= 1 && DivBy(k, W(w)).max_width(&s) < 1) {
                Err("width combinator yields zero".to_string())
            } else {
                Ok(())
            }
        }
        "c13_nested_combinators_never_zero" => {
            use ddo::{DivBy, SubProblem, Times, WidthHeuristic};
            let (k1, k2, w) = (r.usize(), r.usize(), r.usize());
            println!("inputs: k1={} k2={} w={}", k1, k2, w);
            let s = SubProblem { state: std::sync::Arc::new(0u8), value: 0, path: vec![], ub: 0, depth: 0 };
            if Times(k1, DivBy(k2, W(w))).max_width(&s) < 1 || DivBy(k2, Times(k1, W(w))).max_width(&s) < 1 {
                Err("nested width combinator yields zero".to_string())
            } else {
                Ok(())
            }
        }
        "c13_fixed_factors_any_width" => {
            use ddo::{DivBy, SubProblem, Times, WidthHeuristic};
            let ks = [0usize, 1, 2, 3, 5, 8];
            let (i, w) = (r.usize(), r.usize());
            let k = ks[i % ks.len()];
            println!("inputs: k={} w={}", k, w);
            let s = SubProblem { state: std::sync::Arc::new(0u8), value: 0, path: vec![], ub: 0, depth: 0 };
            if Times(k, W(w)).max_width(&s) < 1 || (k >= 1 && DivBy(k, W(w)).max_width(&s) < 1) {
                Err("width combinator yields zero".to_string())
            } else {
                Ok(())
            }
        }
        "c13_times_pow2_full_range" => {
            use ddo::{SubProblem, Times, WidthHeuristic};
            let (k, m) = (r.u8() % 64, r.u8() % 64);
            println!("inputs: factor=2^{} width=2^{}", k, m);
            let s = SubProblem { state: std::sync::Arc::new(0u8), value: 0, path: vec![], ub: 0, depth: 0 };
            // an overflow panic of the dev profile is "no width", not a width of zero
            let one = std::panic::catch_unwind(|| Times(1usize << k, W(1usize << m)).max_width(&s));
            let two = std::panic::catch_unwind(|| Times(1usize << k, Times(1usize << m, W(1))).max_width(&s));
            if matches!(one, Ok(0)) || matches!(two, Ok(0)) {
                Err("width combinator yields zero".to_string())
            } else {
                Ok(())
            }
        }
        _ => Err(format!("unknown harness {}", h)),
    };
    match res {
        Ok(()) => println!("REPLAY-OK: clause holds natively"),
        Err(e) => {
            println!("REPLAY-VIOLATION: {}", e);
            std::process::exit(1)
        }
    }
}
