#!/bin/bash
# dev helper: run every registered quick check on the current tree, one line per check
cd /verif
for p in $(python3 -c "import json; print(' '.join(c['property_id'] for c in json.load(open('MANIFEST.json'))['checks']))"); do
  S=$(date +%s); ./check $p quick > /tmp/all_$p.log 2>&1; RC=$?; E=$(( $(date +%s) - S ))
  echo "$p exit=$RC ${E}s $(grep -E '^\[' /tmp/all_$p.log | tail -1 | cut -c1-200)"
  grep -E '^(VIOLATION|KNOWN-FINDING|INCONCLUSIVE)' /tmp/all_$p.log | cut -c1-300
done
