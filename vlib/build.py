"""Builds (and caches by content hash) the harness binaries:

  symx   : harness with Cost = SymInt against the type-substituted shadow copy of /repo/ddo/src
  sched  : same + scheduler facades (parking_lot / dashmap) for the parallel solver
  native : harness with Cost = isize against the unmodified /repo/ddo (replay, differential)
  kani   : handled in vlib/kani.py

The shadow sources are regenerated from /repo's working tree on every call;
only the *compilation* is cached, keyed by the sha256 of the regenerated
sources + harness sources, so an edited /repo always yields a fresh encoding.
"""
import fcntl, hashlib, json, os, shutil, subprocess, sys, tempfile, time

VERIF = os.path.dirname(os.path.dirname(os.path.abspath(__file__)))
REPO = os.environ.get("VERIF_REPO", "/repo")
CACHE = os.path.join(VERIF, ".cache")
SYMX = os.path.join(VERIF, "symx")

PROFILE = """
[profile.release]
opt-level = 2
debug-assertions = true
overflow-checks = true
debug = false
"""


class BuildError(Exception):
    pass


def _sha_tree(paths, exts=(".rs", ".toml", ".py")):
    h = hashlib.sha256()
    for root in paths:
        if os.path.isfile(root):
            h.update(open(root, "rb").read())
            continue
        for d, _, fs in sorted(os.walk(root)):
            if "/target" in d or d.endswith("/target"):
                continue
            for f in sorted(fs):
                if f.endswith(exts):
                    p = os.path.join(d, f)
                    h.update(p.encode())
                    h.update(open(p, "rb").read())
    return h.hexdigest()


def harness_hash(sched):
    paths = [os.path.join(SYMX, "harness"), os.path.join(SYMX, "symx_int")]
    if sched:
        paths += [os.path.join(SYMX, "facades"), os.path.join(SYMX, "symx_sched")]
    return _sha_tree(paths)


def _env():
    e = dict(os.environ)
    e["CARGO_NET_OFFLINE"] = "true"
    e.pop("RUSTFLAGS", None)
    return e


class _Lock:
    def __init__(self, name):
        os.makedirs(CACHE, exist_ok=True)
        self.path = os.path.join(CACHE, name + ".lock")

    def __enter__(self):
        self.f = open(self.path, "w")
        fcntl.flock(self.f, fcntl.LOCK_EX)
        return self

    def __exit__(self, *a):
        fcntl.flock(self.f, fcntl.LOCK_UN)
        self.f.close()


def _harness_toml(ddo_path, sched):
    deps = 'ddo = { path = "%s" }\nsymx_int = { path = "%s/symx_int" }\n' % (ddo_path, SYMX)
    feats = "symx = []\nsched = []\n"
    if sched:
        deps += 'symx_sched = { path = "%s/symx_sched" }\n' % SYMX
    return """[package]
name = "harness"
version = "0.1.0"
edition = "2021"

[[bin]]
name = "harness"
path = "%s/harness/src/main.rs"

[features]
%s
[dependencies]
%s""" % (SYMX, feats, deps)


def _cargo(ws, target, features, log):
    cmd = ["cargo", "build", "--release", "-p", "harness", "--offline"]
    if features:
        cmd += ["--features", features]
    env = _env()
    env["CARGO_TARGET_DIR"] = target
    t0 = time.time()
    p = subprocess.run(cmd, cwd=ws, env=env, stdout=subprocess.PIPE, stderr=subprocess.STDOUT, text=True)
    open(log, "w").write(p.stdout)
    return p.returncode, time.time() - t0, p.stdout


def _autofix(ws, target, features):
    """Applies rustc-diagnostic driven fix-ups to the SHADOW copy (never to /repo):
      E0308 expected `SymInt`, found integer      ->  SymInt::lit(<literal>)
      E0605 non-primitive cast `SymInt` as T      ->  (<expr>).cast_conc() as T   (refuses at run time if symbolic)
      E0605 non-primitive cast  T as `SymInt`     ->  SymInt::from(<expr>)
    returns the number of edits"""
    cmd = ["cargo", "build", "--release", "-p", "ddo", "--offline", "--message-format=json"]
    env = _env()
    env["CARGO_TARGET_DIR"] = target
    p = subprocess.run(cmd, cwd=ws, env=env, stdout=subprocess.PIPE, stderr=subprocess.DEVNULL, text=True)
    edits = {}
    for line in p.stdout.splitlines():
        try:
            j = json.loads(line)
        except Exception:
            continue
        m = j.get("message") or {}
        if j.get("reason") != "compiler-message" or m.get("level") != "error":
            continue
        code = (m.get("code") or {}).get("code")
        spans = [s for s in m.get("spans", []) if s.get("is_primary")]
        if not spans:
            continue
        sp = spans[0]
        text = m.get("message", "") + " " + (sp.get("label") or "")
        f = os.path.join(ws, sp["file_name"]) if not os.path.isabs(sp["file_name"]) else sp["file_name"]
        if os.path.join(ws, "ddo") not in os.path.abspath(f):
            continue
        src = open(f, encoding="utf-8").read().encode("utf-8")
        frag = src[sp["byte_start"]:sp["byte_end"]].decode("utf-8")
        new = None
        if code == "E0308" and "expected `SymInt`" in text and ("found integer" in text or "found `{integer}`" in text) and frag.strip().lstrip("-").replace("_", "").isdigit():
            new = "SymInt::lit(%s)" % frag
        elif code == "E0605" and "`SymInt` as `" in text and " as " in frag:
            e, t = frag.rsplit(" as ", 1)
            new = "(%s).cast_conc() as %s" % (e, t)
        elif code == "E0605" and "as `SymInt`" in text and " as " in frag:
            e, t = frag.rsplit(" as ", 1)
            new = "SymInt::from(%s)" % e
        if new is not None:
            edits.setdefault(f, {})[(sp["byte_start"], sp["byte_end"])] = new
    n = 0
    for f, es in edits.items():
        src = open(f, encoding="utf-8").read().encode("utf-8")
        last = None
        for (a, b), new in sorted(es.items(), reverse=True):
            if last is not None and b > last:
                continue  # overlapping: next round
            src = src[:a] + new.encode("utf-8") + src[b:]
            last = a
            n += 1
        open(f, "w", encoding="utf-8").write(src.decode("utf-8"))
    return n


def _prune(dirpath, keep=6):
    if not os.path.isdir(dirpath):
        return
    ents = sorted((os.path.getmtime(os.path.join(dirpath, e)), e) for e in os.listdir(dirpath))
    for _, e in ents[:-keep]:
        shutil.rmtree(os.path.join(dirpath, e), ignore_errors=True)


def _du_gb(path):
    try:
        out = subprocess.run(["du", "-s", "--block-size=1M", path], stdout=subprocess.PIPE, text=True).stdout
        return int(out.split()[0]) / 1024.0
    except Exception:
        return 0.0


def ensure_symx(sched=False):
    """returns (binary, info dict). Raises BuildError('encoding not regenerable'...)"""
    kind = "sched" if sched else "symx"
    tmp = tempfile.mkdtemp(prefix="verif-rw-", dir=CACHE if os.path.isdir(CACHE) else None)
    try:
        os.makedirs(CACHE, exist_ok=True)
        args = [sys.executable, os.path.join(SYMX, "rewrite.py"), REPO, tmp]
        if sched:
            args.append("--sched")
        p = subprocess.run(args, stdout=subprocess.PIPE, stderr=subprocess.PIPE, text=True)
        if p.returncode != 0:
            raise BuildError("rewrite failed: " + p.stderr[-2000:])
        rep = json.loads(p.stdout.strip().splitlines()[-1])
        key = hashlib.sha256((rep["sha256"] + harness_hash(sched) + kind).encode()).hexdigest()[:20]
        bdir = os.path.join(CACHE, "b", key)
        binp = os.path.join(bdir, "harness-" + kind)
        info = dict(kind=kind, key=key, rewrite=rep, cached=True, build_s=0.0)
        if os.path.exists(binp):
            os.utime(bdir, None)
            return binp, info
        with _Lock("build-" + kind):
            if os.path.exists(binp):
                return binp, info
            if os.path.isdir(bdir):
                shutil.rmtree(bdir)
            os.makedirs(os.path.join(bdir, "harness"))
            shutil.move(os.path.join(tmp, "ddo"), os.path.join(bdir, "ddo"))
            if os.path.exists(os.path.join(tmp, "Cargo.lock")):
                shutil.move(os.path.join(tmp, "Cargo.lock"), os.path.join(bdir, "Cargo.lock"))
            open(os.path.join(bdir, "Cargo.toml"), "w").write('[workspace]\nmembers = ["ddo", "harness"]\nresolver = "2"\n' + PROFILE)
            open(os.path.join(bdir, "harness", "Cargo.toml"), "w").write(_harness_toml("../ddo", sched))
            target = os.path.join(CACHE, "target-" + kind)
            if _du_gb(target) > 4.0:
                shutil.rmtree(target, ignore_errors=True)
            rc, secs, out = _cargo(bdir, target, "symx,sched" if sched else "symx", os.path.join(bdir, "build.log"))
            fixes = 0
            rounds = 0
            while rc != 0 and rounds < 4:
                # mechanical, semantics-preserving fix-ups driven by rustc's own diagnostics (edited trees only)
                n = _autofix(bdir, target, "symx,sched" if sched else "symx")
                rounds += 1
                if n == 0:
                    break
                fixes += n
                rc, secs2, out = _cargo(bdir, target, "symx,sched" if sched else "symx", os.path.join(bdir, "build.log"))
                secs += secs2
            info["autofix_edits"] = fixes
            if rc != 0:
                errs = "\n".join(l for l in out.splitlines() if l.startswith("error") or l.strip().startswith("-->"))[:3000]
                raise BuildError("shadow crate does not compile (encoding not regenerable):\n" + errs)
            shutil.copy(os.path.join(target, "release", "harness"), binp)
            info.update(cached=False, build_s=round(secs, 1))
            _prune(os.path.join(CACHE, "b"))
            return binp, info
    finally:
        shutil.rmtree(tmp, ignore_errors=True)


def ensure_native():
    os.makedirs(CACHE, exist_ok=True)
    key = hashlib.sha256((_sha_tree([os.path.join(REPO, "ddo", "src")]) + harness_hash(False) + "native").encode()).hexdigest()[:20]
    bdir = os.path.join(CACHE, "n", key)
    binp = os.path.join(bdir, "harness-native")
    info = dict(kind="native", key=key, cached=True, build_s=0.0)
    if os.path.exists(binp):
        os.utime(bdir, None)
        return binp, info
    with _Lock("build-native"):
        if os.path.exists(binp):
            return binp, info
        if os.path.isdir(bdir):
            shutil.rmtree(bdir)
        os.makedirs(os.path.join(bdir, "harness"))
        lock = os.path.join(REPO, "Cargo.lock")
        if os.path.exists(lock):
            shutil.copy(lock, os.path.join(bdir, "Cargo.lock"))
        open(os.path.join(bdir, "Cargo.toml"), "w").write('[workspace]\nmembers = ["harness"]\nresolver = "2"\n' + PROFILE)
        open(os.path.join(bdir, "harness", "Cargo.toml"), "w").write(_harness_toml(os.path.join(REPO, "ddo"), False))
        target = os.path.join(CACHE, "target-native")
        if _du_gb(target) > 4.0:
            shutil.rmtree(target, ignore_errors=True)
        rc, secs, out = _cargo(bdir, target, "", os.path.join(bdir, "build.log"))
        if rc != 0:
            errs = "\n".join(l for l in out.splitlines() if l.startswith("error") or l.strip().startswith("-->"))[:3000]
            raise BuildError("native harness does not compile against /repo/ddo:\n" + errs)
        shutil.copy(os.path.join(target, "release", "harness"), binp)
        info.update(cached=False, build_s=round(secs, 1))
        _prune(os.path.join(CACHE, "n"))
        return binp, info


if __name__ == "__main__":
    for k in sys.argv[1:] or ["symx", "native"]:
        if k == "native":
            print(ensure_native())
        else:
            print(ensure_symx(sched=(k == "sched")))
