"""E1: runs the Kani harnesses of /verif/kani against the unmodified /repo/ddo,
parses per-harness verdicts / cover witnesses, extracts counterexamples with
concrete playback and replays them natively (dev and release) before reporting."""
import hashlib, json, os, re, shutil, subprocess, time

from . import build

VERIF = build.VERIF
CACHE = build.CACHE

HARNESSES = {
    "C17": ["c17_gap_all_pairs"],
    "C13": ["c13_times_divby_never_zero_16bit", "c13_nested_combinators_never_zero", "c13_fixed_factors_any_width", "c13_times_pow2_full_range"],
    "C10": ["c10_partial_cmp_and_cmp_kernels", "c10_cmp_transitive"],
    "C09": ["c09_must_explore_kernel"],
    "C18": ["c18_threshold_max_kernel"],
    "C11": ["c11_maxub_kernel", "c11_simple_fringe_three_pushes"],
}
# per-harness extra arguments (none at present) and failed checks that are EXPECTED on the unchanged tree: Kani models the
# dev profile, where an overflowing product panics (rustc's own check; --no-overflow-checks and profile settings do not
# remove it) - a panic is "no width at all", which the clause "never yields a width of zero" allows
HARNESS_FLAGS = {}
EXPECTED_FAILS = {"c13_times_pow2_full_range": ["attempt to multiply with overflow"]}
FUNCS = {
    "c13_times_pow2_full_range": "ddo::Times::max_width (also nested) with factor 2^k, inner width 2^m, k and m in 0..63 (products that are multiples of 2^64 included; the dev profile's overflow panic is an expected failed check)",
    "c17_gap_all_pairs": "ddo::Solver::gap (default method, stub solver exposing arbitrary lb <= ub; full 64-bit range, IEEE f32)",
    "c13_times_divby_never_zero_16bit": "ddo::Times::max_width, ddo::DivBy::max_width (factor, width < 2^16)",
    "c13_nested_combinators_never_zero": "Times(k1, DivBy(k2, W)), DivBy(k2, Times(k1, W)) (k < 256, w < 2^16)",
    "c13_fixed_factors_any_width": "Times/DivBy with k in {0,1,2,3,5,8}, any 64-bit width without overflow",
    "c10_partial_cmp_and_cmp_kernels": "ddo::Dominance::{partial_cmp, cmp} default methods over [isize;3], use_value arbitrary",
    "c10_cmp_transitive": "ddo::Dominance::cmp over three arbitrary states",
    "c09_must_explore_kernel": "ddo::Cache::must_explore default method over an arbitrary Option<Threshold>",
    "c18_threshold_max_kernel": "derived Ord of ddo::Threshold (max)",
    "c11_maxub_kernel": "ddo::MaxUB::compare",
    "c11_simple_fringe_three_pushes": "ddo::SimpleFringe<MaxUB<_>>::{new, push, pop, len} over binary-heap-plus, three pushes with arbitrary 64-bit (ub, value), unwind 9",
}


def _env():
    e = dict(os.environ)
    e["CARGO_NET_OFFLINE"] = "true"
    return e


def _scratch():
    d = os.path.join(CACHE, "kani-run-%d" % os.getpid())
    if os.path.isdir(d):
        shutil.rmtree(d)
    shutil.copytree(os.path.join(VERIF, "kani"), d, ignore=shutil.ignore_patterns("target"))
    toml = open(os.path.join(d, "Cargo.toml")).read().replace('path = "/repo/ddo"', 'path = "%s/ddo"' % build.REPO)
    open(os.path.join(d, "Cargo.toml"), "w").write(toml)
    lock = os.path.join(build.REPO, "Cargo.lock")
    if os.path.exists(lock):
        shutil.copy(lock, os.path.join(d, "Cargo.lock"))
    return d


def _run_kani(d, harnesses, extra, timeout):
    cmd = ["cargo", "kani", "--target-dir", os.path.join(CACHE, "target-kani")]
    for h in harnesses:
        cmd += ["--harness", h]
    cmd += extra
    try:
        p = subprocess.run(cmd, cwd=d, env=_env(), stdout=subprocess.PIPE, stderr=subprocess.STDOUT, text=True, timeout=timeout)
        return p.stdout, None
    except subprocess.TimeoutExpired as e:
        out = e.stdout or ""
        if isinstance(out, bytes):
            out = out.decode("utf-8", "replace")
        return out, "timeout"


def _sections(out):
    """split kani output per harness"""
    secs = {}
    cur = None
    for line in out.splitlines():
        m = re.match(r"Checking harness (\S+?)\.\.\.", line)
        if m:
            cur = m.group(1).split("::")[-1]
            secs[cur] = []
        elif cur:
            secs[cur].append(line)
    return {k: "\n".join(v) for k, v in secs.items()}


def _playback_bytes(text):
    """one hex byte stream per generated playback test that is not a cover witness"""
    outs = []
    covers = []  # witnesses of cover properties: tried last (Kani prints one test only when a failing trace coincides with one)
    for block in text.split("Concrete playback unit test for")[1:]:
        is_cover = "Check for `cover`" in block
        body = block.split("let concrete_vals", 1)
        if len(body) < 2:
            continue
        hexs = ""
        for m in re.finditer(r"vec!\[([0-9,\s]*)\]", body[1].split("kani::concrete_playback_run")[0]):
            nums = [x for x in m.group(1).replace("\n", " ").split(",") if x.strip()]
            if all(n.strip().isdigit() for n in nums):
                hexs += "".join("%02x" % int(n) for n in nums)
        (covers if is_cover else outs).append(hexs)
    return (outs + covers) or None


def native_replay(d, harness, hexbytes):
    """returns (violated: bool|None, text). Runs the replay binary in dev and release profile."""
    outs = []
    violated = False
    for prof in ([], ["--release"]):
        env = _env()
        env["CARGO_TARGET_DIR"] = os.path.join(CACHE, "target-kani-native")
        p = subprocess.run(["cargo", "run", "--offline", "-q", "--bin", "replay"] + prof + ["--", harness, hexbytes], cwd=d, env=env, stdout=subprocess.PIPE, stderr=subprocess.STDOUT, text=True, timeout=600)
        keep = [l for l in p.stdout.splitlines() if l.startswith(("inputs:", "REPLAY-", "thread ")) or "panicked" in l]
        outs.append(("release" if prof else "dev") + ": " + " | ".join(keep)[-400:])
        if "REPLAY-VIOLATION" in p.stdout or ("panicked" in p.stdout and p.returncode != 0):
            violated = True
        elif "REPLAY-OK" not in p.stdout:
            return None, "\n".join(outs)
    return violated, "\n".join(outs)


def setup():
    d = _scratch()
    try:
        with build._Lock("kani"):
            _run_kani(d, ["c17_gap_all_pairs"], [], 900)
    finally:
        shutil.rmtree(d, ignore_errors=True)


def run(prop, tier):
    t0 = time.time()
    hs = HARNESSES[prop]
    d = _scratch()
    res = dict(exit=0, lines=[], problems=[], violations=0, evidence=dict(harnesses=[], checks=0, checks_passed=0, functions_encoded=[FUNCS[h] for h in hs], engine="Kani 0.68 / CBMC 6.11 (CaDiCaL), unwinding assertions on, unmodified crate"))
    try:
        with build._Lock("kani"):
            plain = [h for h in hs if h not in HARNESS_FLAGS]
            out, err = _run_kani(d, plain, [], 900 if tier == "quick" else 3600) if plain else ("", None)
            secs = _sections(out)
            for h in hs:
                if h in HARNESS_FLAGS and not err:
                    o2, err = _run_kani(d, [h], HARNESS_FLAGS[h], 900 if tier == "quick" else 3600)
                    out += o2
                    secs.update(_sections(o2))
            if err or not secs:
                res["exit"] = 2
                res["problems"].append("kani run failed (%s): %s" % (err, out[-500:]))
                return res
            for h in hs:
                s = secs.get(h)
                if s is None:
                    res["exit"] = 2
                    res["problems"].append("harness %s did not run" % h)
                    continue
                ok = "VERIFICATION:- SUCCESSFUL" in s
                failed = "VERIFICATION:- FAILED" in s
                m = re.search(r"\*\* (\d+) of (\d+) failed", s)
                nfail, ntot = (int(m.group(1)), int(m.group(2))) if m else (0, 0)
                mc = re.search(r"\*\* (\d+) of (\d+) cover properties satisfied", s)
                cov_ok = mc is not None and mc.group(1) == mc.group(2)
                mt = re.search(r"Verification Time: ([0-9.]+)s", s)
                rec = dict(harness=h, verdict="successful" if ok else "failed" if failed else "unknown", checks=ntot, failed_checks=nfail, cover_satisfied=cov_ok, solver_time_s=float(mt.group(1)) if mt else None, function=FUNCS[h])
                res["evidence"]["harnesses"].append(rec)
                res["evidence"]["checks"] += ntot
                res["evidence"]["checks_passed"] += ntot - nfail
                if "unwinding assertion" in s and "FAILURE" in s and re.search(r"unwinding assertion.*\n.*FAILURE|FAILURE.*\n.*unwinding assertion", s):
                    res["exit"] = max(res["exit"], 2) if res["exit"] != 1 else 1
                    res["problems"].append("%s: unwinding bound too small" % h)
                    continue
                if not cov_ok:
                    res["exit"] = max(res["exit"], 2) if res["exit"] != 1 else 1
                    res["problems"].append("%s: cover witness not satisfied (vacuous harness)" % h)
                if ok:
                    continue
                descs0 = re.findall(r"Failed Checks: (.*)", s)
                if failed and descs0 and all(any(e in x for e in EXPECTED_FAILS.get(h, [])) for x in descs0):
                    rec["verdict"] = "successful apart from expected failed checks"
                    rec["expected_failed_checks"] = sorted(set(descs0))
                    res["evidence"]["checks_passed"] += 0
                    continue
                if not failed:
                    res["exit"] = max(res["exit"], 2) if res["exit"] != 1 else 1
                    res["problems"].append("%s: no verdict (timeout / out of memory)" % h)
                    continue
                # counterexample -> concrete playback -> native replay
                out2, err2 = _run_kani(d, [h], ["-Z", "concrete-playback", "--concrete-playback=print"] + HARNESS_FLAGS.get(h, []), 900)
                hexb = _playback_bytes(out2)
                descs = re.findall(r"Failed Checks: (.*)", s)
                if hexb is None:
                    res["exit"] = max(res["exit"], 2) if res["exit"] != 1 else 1
                    res["problems"].append("%s failed (%s) but no concrete playback was produced" % (h, "; ".join(descs)))
                    continue
                viol, text = None, ""
                for hx in hexb[:4]:
                    viol, text = native_replay(d, h, hx)
                    if viol:
                        hexb = hx
                        break
                rec["replay"] = text
                if viol:
                    os.makedirs(os.path.join(VERIF, "replays"), exist_ok=True)
                    body = dict(property=prop, engine="kani", harness=h, bytes=hexb, failed_checks=descs, native=text)
                    path = os.path.join(VERIF, "replays", "%s-%s.json" % (prop, hashlib.sha256(json.dumps(body, sort_keys=True).encode()).hexdigest()[:12]))
                    json.dump(body, open(path, "w"), indent=1)
                    res["lines"].append("  kani counterexample for %s: %s" % (h, "; ".join(descs)))
                    res["lines"].append("    " + text.replace("\n", "\n    "))
                    res["lines"].append("VIOLATION property=%s replay=%s" % (prop, path))
                    res["exit"] = 1
                    res["violations"] += 1
                else:
                    res["exit"] = max(res["exit"], 2) if res["exit"] != 1 else 1
                    res["problems"].append("%s: kani counterexample (%s) does not reproduce natively: %s" % (h, "; ".join(descs), text[-300:]))
        res["evidence"]["wall_s"] = round(time.time() - t0, 1)
        return res
    finally:
        shutil.rmtree(d, ignore_errors=True)


def replay(path):
    body = json.load(open(path))
    d = _scratch()
    try:
        with build._Lock("kani"):
            return native_replay(d, body["harness"], body["bytes"])
    finally:
        shutil.rmtree(d, ignore_errors=True)
