"""Per-property driver: plan -> build -> explore -> replay -> findings policy -> evidence."""
import json, os, re, sys, time

from . import build, cases, runner

VERIF = build.VERIF


def log(*a):
    print(*a, flush=True)


def _find_factory(binp):
    import subprocess

    def find(features, fam, take, start, dyn=None, count=20000):
        """static structural features, or (dyn=dict(notes=.., dd=.., width=..)) shapes observed in concrete probe runs"""
        if dyn:
            dyn = dict(dyn)
            kind = "finddynsolve" if dyn.pop("_solve", False) else "finddyn"
            argv = [binp, "kind=" + kind, "take=%d" % take, "start=%d" % start, "count=%d" % count] + ["%s=%s" % (k, v) for k, v in fam.items()] + ["%s=%s" % (k, v) for k, v in dyn.items()]
        else:
            argv = [binp, "kind=find", "features=" + ",".join(features), "take=%d" % take, "start=%d" % start, "count=%d" % count] + ["%s=%s" % (k, v) for k, v in fam.items()]
        out = subprocess.run(argv, stdout=subprocess.PIPE, stderr=subprocess.DEVNULL, text=True).stdout.strip()
        return [int(x) for x in out.split(",") if x]

    return find


def write_evidence(prop, tier, seed, level, coverage, assumptions, wall, violations):
    os.makedirs(os.path.join(VERIF, "evidence"), exist_ok=True)
    ev = dict(property_id=prop, tier=tier, seed=seed, level=level, coverage=coverage, assumptions=assumptions, wall_s=round(wall, 1), violations=violations)
    path = os.path.join(VERIF, "evidence", prop + ".json")
    json.dump(ev, open(path + ".tmp", "w"), indent=1)
    os.replace(path + ".tmp", path)


def run(prop, tier, seed, t0):
    sched_needed = prop in cases_sched()
    # ---- build (regenerated from /repo's working tree)
    if prop in cases.KANI_ONLY:
        binp, binfo, find = None, dict(key="-", build_s=0.0, cached=True), None
    else:
        binp, binfo = build.ensure_symx(sched=False)
        find = _find_factory(binp)
    plan = cases.plan(prop, tier, seed, find)
    bins = {"symx": binp}
    if any(b.get("_engine") == "sched" for b in plan["bundles"]):
        bins["sched"], sinfo = build.ensure_symx(sched=True)
        binfo = dict(binfo, sched=sinfo)
    log("[%s %s seed=%d] build %s (%.0fs, cached=%s); %d bundles" % (prop, tier, seed, binfo["key"], binfo["build_s"], binfo["cached"], len(plan["bundles"])))

    agg = runner.Agg(prop, plan["prefixes"])
    timeout = 300 if tier == "quick" else 3600
    # wall-clock budget of the exploration part (bundles that have not STARTED when it is spent are skipped and reported)
    wall_budget = float(os.environ.get("VERIF_WALL_SECS", "1500" if tier == "quick" else "3000"))
    deadline = t0 + wall_budget
    groups = {}
    for b in plan["bundles"]:
        groups.setdefault(b.get("_engine", "symx"), []).append(b)
    results_by_engine = {}
    for eng, bundles in groups.items():
        last = [0]
        # deterministic shuffle: when the wall budget truncates a run, what did run is a sample across all blocks of the
        # plan (and not its first blocks only); with the pool of 16 it also balances long and short bundles
        import random
        random.Random(seed * 7919 + len(bundles)).shuffle(bundles)

        def progress(i, n):
            if time.time() - last[0] > 30:
                last[0] = time.time()
                log("  .. %d/%d bundles (%s), %.0fs" % (i, n, eng, time.time() - t0))

        for (bundle, recs, err, secs) in runner.run_all(bins[eng], bundles, timeout, progress, deadline):
            agg.add(bundle, recs, err, secs, plan["nontrivial"][1])
            results_by_engine.setdefault(eng, []).append((bundle, recs, err, secs))

    # ---- kani part (leaf kernels), if the property has one
    kani_res = None
    if plan.get("kani"):
        from . import kani
        kani_res = kani.run(prop, tier)

    # ---- violations: dedupe by role key, replay natively, known-findings policy
    known = runner.load_known(prop)
    by_key = {}
    for case, v in agg.violations:
        by_key.setdefault(runner.violation_key(case, v), []).append((case, v))
    exit_code = 0
    reported = 0
    nonrepro = []
    replays_done = 0
    known_hit = {}
    for key, items in sorted(by_key.items()):
        kf = next((k for k in known if re.search(k["key"], key)), None)
        # replay up to 3 witnesses per key; one reproducing witness is enough
        reproduced = None
        for case, v in items[:3]:
            ok, detail = runner.replay_native(case, v["inputs"], v["label"], None)
            replays_done += 1
            if ok:
                reproduced = (case, v, detail)
                break
            if ok is None:
                nonrepro.append(dict(key=key, detail=detail))
            else:
                nonrepro.append(dict(key=key, detail=detail, case=case, inputs=v["inputs"]))
        if reproduced:
            case, v, detail = reproduced
            if kf:
                known_hit[kf["key"]] = kf
                continue
            path = runner.write_replay(prop, case, v)
            log("  counterexample (%d paths hit it): %s" % (len(items), key))
            log("    %s" % v["detail"][:300])
            log("VIOLATION property=%s replay=%s" % (prop, path))
            reported += 1
            exit_code = 1
    for kf in known_hit.values():
        log("KNOWN-FINDING: property=%s %s" % (prop, kf["text"]))
    if kani_res:
        for line in kani_res["lines"]:
            log(line)
        if kani_res["exit"] == 1:
            exit_code = 1
            reported += kani_res["violations"]

    # ---- second solver: re-run a sample of bundles with cvc5; for sub-cases that are complete under both
    # solvers the number of feasible paths and the violated labels must coincide
    xcheck = dict(bundles=0, subcases_compared=0, disagreements=[])
    # (only bundles that did run under z3; the re-run has its own wall budget: a fifth of the tier's, at least 5 minutes)
    ran = {json.dumps(b, sort_keys=True) for (b, recs, err, secs) in results_by_engine.get("symx", []) if recs}
    sample = [b for b in plan["bundles"] if b.get("_engine", "symx") == "symx" and json.dumps(b, sort_keys=True) in ran]
    sample = sample[:: max(1, len(sample) // (3 if tier == "quick" else 24))][: (3 if tier == "quick" else 24)]
    xdeadline = time.time() + max(300.0, 0.2 * wall_budget)
    if sample and binp:
        key = lambda rec: json.dumps(rec["case"], sort_keys=True)
        z3res = {}
        for (bundle, recs, err, secs) in results_by_engine.get("symx", []):
            for rec in recs:
                z3res[key(rec)] = rec["report"]
        for (bundle, recs, err, secs) in runner.run_all(binp, [dict(b, _solver="cvc5") for b in sample], timeout, None, xdeadline):
            xcheck["bundles"] += 1
            for rec in recs:
                a, b2 = z3res.get(key(rec)), rec["report"]
                if a and a["complete"] and b2["complete"]:
                    xcheck["subcases_compared"] += 1
                    la = sorted({v["label"] for v in a["violations"]})
                    lb = sorted({v["label"] for v in b2["violations"]})
                    if a["paths"] != b2["paths"] or la != lb:
                        xcheck["disagreements"].append(dict(case=rec["case"], z3=dict(paths=a["paths"], viol=la), cvc5=dict(paths=b2["paths"], viol=lb)))
    # ---- differential self-validation of the encoding (shadow concrete vs native, same inputs)
    diff_ok, diff_bad = (0, [])
    if binp:
        diff_ok, diff_bad = runner.differential(binp, agg.diff_candidates, 16 if tier == "quick" else 64)
    # ---- machinery problems -> exit 2 (unless a real violation is already reported)
    problems = []
    if xcheck["disagreements"]:
        problems.append("z3 and cvc5 disagree on %d sub-cases" % len(xcheck["disagreements"]))
    if diff_bad and exit_code == 0:
        problems.append("%d differential runs disagree between the shadow build and the native build: the rewrite changed behaviour" % len(diff_bad))
    if agg.machinery:
        problems.append("%d sub-cases with refused paths / solver errors / divergences / harness errors" % len(agg.machinery))
    if nonrepro and exit_code == 0:
        problems.append("%d counterexamples did not reproduce natively (encoding or harness defect)" % len(nonrepro))
    for k, need in plan["vacuity"].items():
        if agg.notes.get(k, 0) < need:
            problems.append("vacuity: feature '%s' never occurred on any explored path" % k)
    if kani_res and kani_res["exit"] == 2:
        problems.append("kani: " + "; ".join(kani_res["problems"]))
    if agg.subcases == 0 and not kani_res:
        problems.append("no sub-case reported")

    # ---- evidence
    wall = time.time() - t0
    cov = dict(
        states=max(1, agg.tot["paths"]),
        transitions=max(1, agg.tot["branches"]),
        traces_validated_against_impl=replays_done + diff_ok,
        differential_runs_agreeing=diff_ok,
        second_solver_crosscheck=dict(solver="cvc5 1.0", bundles=xcheck["bundles"], subcases_compared=xcheck["subcases_compared"], disagreements=xcheck["disagreements"][:3]),
        differential_mismatches=diff_bad[:3],
        evaluations=max(1, agg.tot["paths"]),
        distinct_nontrivial=len(agg.nontrivial),
        rule="a case = (structure seed, family flags, diagram type, compilation type / solver configuration, width, root ...); each case is explored path-exhaustively by generational DFS with z3 deciding every branch alternative; non-trivial: " + plan["nontrivial"][0] + "; distinct = distinct case descriptors",
        samples=agg.samples or [dict(note="no multi-path sub-case")],
        obligations=agg.tot["obligations"],
        discharged=agg.tot["discharged_solver"] + agg.tot["discharged_concrete"],
        obligations_of_this_property=agg.prop_obligations,
        discharged_by_solver_unsat=agg.tot["discharged_solver"],
        discharged_concretely=agg.tot["discharged_concrete"],
        subcases=agg.subcases,
        subcases_decided_exhaustively=agg.decided,
        subcases_incomplete=len(agg.incomplete),
        bundles_planned=len(plan["bundles"]),
        bundles_skipped_wall_budget=agg.skipped,
        wall_budget_secs=wall_budget,
        incomplete_examples=agg.incomplete[:5],
        exhaustive=False,
        paths=agg.tot["paths"],
        branches=agg.tot["branches"],
        solver_queries=agg.tot["queries"],
        solver_sat=agg.tot["sat"],
        solver_unsat=agg.tot["unsat"],
        solver_unknown=agg.tot["unknown"],
        solver_seconds=round(agg.solver_secs, 1),
        engine_selfcheck_branch_constraints_evaluated=agg.tot["selfcheck_terms"],
        shape_histogram=agg.notes,
        obligation_labels=agg.labels,
        functions_encoded=plan["functions"],
        bounds=plan["bounds"],
        engine="symx: concolic execution of the type-substituted real source (isize -> SymInt), generational DFS, z3 4.8.12 via pipe",
        build=binfo,
        native_replays=replays_done,
        nonreproducing=nonrepro[:5],
        machinery_problems=problems,
        known_findings_hit=[k["key"] for k in known_hit.values()],
        explanation="every explored path's obligations were discharged as UNSAT(path-condition AND NOT phi); see bounds for what lies outside the claim",
    )
    if kani_res:
        cov["kani"] = kani_res["evidence"]
        cov["obligations"] += kani_res["evidence"].get("checks", 0)
        cov["discharged"] += kani_res["evidence"].get("checks_passed", 0)
        cov["functions_encoded"] = list(cov["functions_encoded"]) + kani_res["evidence"]["functions_encoded"]
        if not plan["bundles"]:
            # Kani-only property: one harness decides ALL inputs of its kernel; count CBMC verification conditions
            hs = kani_res["evidence"]["harnesses"]
            cov.update(states=max(1, kani_res["evidence"]["checks"]), transitions=max(1, kani_res["evidence"]["checks"]), evaluations=max(1, len(hs)), distinct_nontrivial=kani_res["evidence"]["checks"],
                       rule="each Kani harness decides its kernel for every input in the stated range; counted: distinct CBMC verification conditions (assertions, overflow / NaN / bounds checks) discharged; cover witnesses guard against vacuity",
                       samples=hs, engine=kani_res["evidence"]["engine"], explanation="SAT-based bounded model checking of the compiled (unmodified) code; loop-free kernels, so the bound is the full input range",
                       checker_cmd="cargo kani --harness <name> (in a scratch copy of /verif/kani with a path dependency on /repo/ddo)", trusted_base=["rustc/Kani MIR->GOTO translation", "CBMC 6.11 + CaDiCaL"])
    write_evidence(prop, tier, seed, "model_checking", cov, cases.ASSUME_E2 if plan["bundles"] else cases.ASSUME_E1, wall, reported)
    if agg.skipped:
        log("[%s] wall budget of %.0fs spent: %d of %d bundles were not started (reported in evidence as bundles_skipped_wall_budget)" % (prop, wall_budget, agg.skipped, len(plan["bundles"])))
    log("[%s] sub-cases=%d decided=%d incomplete=%d paths=%d queries=%d (unsat %d) obligations=%d (this property: %d) violations=%d wall=%.0fs" % (prop, agg.subcases, agg.decided, len(agg.incomplete), agg.tot["paths"], agg.tot["queries"], agg.tot["unsat"], agg.tot["obligations"], agg.prop_obligations, reported, wall))
    if exit_code == 1:
        return 1
    if problems:
        for p in problems:
            log("INCONCLUSIVE property=%s: %s" % (prop, p))
        for m in agg.machinery[:3]:
            log("   ", json.dumps(m)[:600])
        for m in nonrepro[:3]:
            log("   ", json.dumps(m)[:600])
        return 2
    return 0


def cases_sched():
    return {"C03", "C04"}
