"""Case plans per property and tier (DESIGN.md 4.3/4.4/5).  A *bundle* is one
harness invocation (one structure, lists of diagram types / widths, all
reachable roots); the harness emits one report per sub-case."""

DD3 = ["lel", "frontier", "pooled"]

FUNCS_DD = [
    "ddo::Mdd<St,LAST_EXACT_LAYER>::{compile,is_exact,best_value,best_solution,best_exact_value,best_exact_solution,drain_cutset,as_graphviz}",
    "ddo::Mdd<St,FRONTIER>::{same}",
    "ddo::Pooled<St>::{same}",
    "ddo::NodeFlags::*",
    "ddo::EmptyCache / EmptyDominanceChecker (isolation)",
]
ASSUME_E2 = [
    "cost type isize replaced by SymInt through the mechanical rewrite rules of symx/rewrite.py (hit counts in coverage.rewrite)",
    "std / hashbrown / fxhash / binary-heap-plus / dashmap run natively, unmodelled; hash iteration order is the one fxhash gives for the harness keys",
    "mathematical integers + explicit clamp for saturating ops; plain + - refuse when the interval cannot exclude 64-bit overflow",
    "inputs range over the declared intervals only (arc costs +-10^6, incumbent +-10^7, slack 0..1000)",
    "z3 4.8.12 verdicts (thorough tier cross-checks a sample of cases with cvc5)",
    "structures (transition tables) are sampled / feature-directed, not quantified; values are quantified by the solver",
]


ASSUME_E1 = [
    "Kani 0.68 models the dev profile (overflow checks on) of the unmodified crate; CBMC bit-blasts 64-bit integers and IEEE-754 floats",
    "inputs constrained only by the documented precondition of the kernel (stated per harness)",
    "counterexamples are replayed natively (dev and release) before they are reported",
]
KANI_ONLY = {"C17"}


def P(**kw):
    d = dict(kw)
    return {k: str(v) for k, v in d.items()}


def _pfind(find, jobs):
    """runs independent find() scans concurrently; jobs = list of (args, kwargs); results in the same order"""
    import concurrent.futures as cf
    with cf.ThreadPoolExecutor(max_workers=16) as ex:
        return list(ex.map(lambda j: find(*j[0], **j[1]), jobs))


def _limits(tier):
    return dict(max_paths=1500, max_secs=20) if tier == "quick" else dict(max_paths=40000, max_secs=600)


def _dd_bundles(tier, seed, find, props, comps, widths_small, extra_fams=True, dds=DD3, lbs=("sym",), viz_all=False, more=None):
    lim = _limits(tier)
    base = seed * 1000
    nq = 3 if tier == "quick" else 12
    out = []
    fam_main = dict(n=3, b=3, d=2, setnext=1)
    directed = []
    for feat in ("union_triple", "dead_end", "subset_pair"):
        directed += find([feat], fam_main, nq if feat == "union_triple" else max(1, nq // 3), base + 1)
    generic = [base + 500 + k for k in range(nq)]
    seeds = []
    for s in directed + generic:
        if s not in seeds:
            seeds.append(s)
    i = 0
    for s in seeds:
        for dd in dds:
            for comp in comps:
                i += 1
                b = dict(kind="dd", dd=dd, comp=comp, seed=s, width=",".join(map(str, widths_small)), roots="all", rub=("hslack" if i % 2 else "none"), lb=lbs[(i // 2) % len(lbs)], hist=(2 if i % 3 == 0 else 0), rev=i % 2, props=props, **fam_main, **lim)
                if viz_all:
                    b["viz_all"] = 1
                if more:
                    b.update(more)
                out.append(P(**b))
    # deeper directed structures: a merge whose result equals a kept exact state (recycled node) with further layers below
    deep = dict(n=4, b=3, d=2, setnext=1, nsym=7)
    deep_seeds = find([], deep, 8 if tier == "quick" else 32, base + 1, dyn=dict(notes="merge_equals_other_layer_state,cutset_nonempty", dd="frontier", width=2, tries=24))
    for s in deep_seeds:
        for dd in dds:
            for comp in comps:
                i += 1
                b = dict(kind="dd", dd=dd, comp=comp, seed=s, width="2", roots="0", rub=("hslack" if i % 4 == 0 else "none"), lb=("sym" if i % 2 else "none"), hist=0, rev=i % 2, props=props, **deep, **lim)
                if more:
                    b.update(more)
                out.append(P(**b))
    # stale per-object state: an earlier, wider, solver-like compilation on the SAME object (symbolic costs) that merged but
    # is exact by its best path, so that its cut-set is never drained; then the narrow compilation under test
    if True:
        stale = dict(n=5, b=3, d=2, setnext=1, nsym=6)
        stale_seeds = find([], stale, 6 if tier == "quick" else 24, base + 1, dyn=dict(notes="hist_relaxed_exact_undrained,cutset_nonempty", dd="lel", width=1, roots=0, hist=1, hist_sym=1, hist_w=3, props="C06,C08", tries=10), count=4000)
        for k, s in enumerate(stale_seeds):
            for dd in dds:
                for comp in (comps if k % 2 == 0 else comps[:1]):
                    i += 1
                    b = dict(kind="dd", dd=dd, comp=comp, seed=s, width="1,2", roots="0", rub="none", lb=("sym" if i % 2 else "none"), hist=1, hist_sym=1, hist_w=3, rev=0, props=props, **stale, **lim)
                    if more:
                        b.update(more)
                    out.append(P(**b))
    # probe-directed structures: a concrete pre-scan (random cost vectors, microseconds per run) looks for structures on
    # which SOME concrete probe already violates an obligation of this property; the symbolic engine then decides them
    # (nothing is found on a tree where the property holds; the scan only chooses WHERE the solver looks)
    nscan = 4000 if tier == "quick" else 30000
    scan_fams = [dict(n=4, b=3, d=2, setnext=1), dict(n=5, b=2, d=2, setnext=1), dict(n=4, b=3, d=2, setnext=1, long_arcs=1, depth_free=1), dict(n=4, b=2, d=2, setnext=1, bonus=1, perm=1)]
    scan_keys = [(fam, dd, comp, w) for fam in scan_fams for dd in dds for comp in comps for w in (1, 2)]
    scan_hits = _pfind(find, [(([], fam, 2, base + 1), dict(dyn=dict(notes="VIOLATION", dd=dd, comp=comp, width=w, roots=0, props=props, tries=5), count=nscan)) for (fam, dd, comp, w) in scan_keys])
    for (fam, dd, comp, w), hits in zip(scan_keys, scan_hits):
        if True:
            if True:
                if True:
                    for s in hits:
                        i += 1
                        b = dict(kind="dd", dd=dd, comp=comp, seed=s, width=str(w), roots="0", rub="none", lb="none", hist=0, rev=0, props=props, nsym=8, **fam, **lim)
                        if more:
                            b.update(more)
                        out.append(P(**b))
    # wide layers: three domain values per variable, so that a layer holds three or more nodes below a width of 1 or 2
    # (a squash then drops / merges SEVERAL nodes whose order by value and by value + rub can differ)
    wide = dict(n=2, b=3, d=3, setnext=1)
    for k in range(3 if tier == "quick" else 12):
        s = base + 800 + k
        for di, dd in enumerate(dds):
            for comp in comps:
                i += 1
                b = dict(kind="dd", dd=dd, comp=comp, seed=s, width="1,2", roots="0", rub=("hslack" if k % 3 != 2 else "none"), lb=lbs[(k + di) % len(lbs)], hist=0, rev=i % 2, props=props, **wide, **lim)
                if more:
                    b.update(more)
                out.append(P(**b))
    if extra_fams:
        fams = [
            dict(n=4, b=2, d=2, setnext=1),
            dict(n=3, b=3, d=2, setnext=1, bonus=1),
            dict(n=3, b=2, d=3, setnext=0, perm=1),
            dict(n=3, b=3, d=2, setnext=1, depth_free=1),
            dict(n=4, b=3, d=2, setnext=0, nsym=8),
        ]
        ne = 1 if tier == "quick" else 4
        for fi, fam in enumerate(fams):
            for k in range(ne):
                s = base + 700 + 10 * fi + k
                for dd in dds:
                    for comp in comps:
                        i += 1
                        b = dict(kind="dd", dd=dd, comp=comp, seed=s, width="1,2", roots="all", rub=("hslack" if i % 2 else "none"), lb=lbs[(i // 2) % len(lbs)], hist=(1 if i % 2 == 0 else 0), rev=i % 2, props=props, **fam, **lim)
                        if more:
                            b.update(more)
                        out.append(P(**b))
    return out


def _long_arc_bundles(tier, seed, find, props, comps, dds=("pooled",)):
    lim = _limits(tier)
    base = seed * 1000
    fam = dict(n=3, b=3, d=2, setnext=1, long_arcs=1, depth_free=1)
    nq = 3 if tier == "quick" else 10
    seeds = find(["lingering_root_child"], fam, nq, base + 1) + find(["arc_spanning_2"], dict(fam, n=4, b=2), max(1, nq // 2), base + 1)
    out = []
    i = 0
    for s in seeds:
        for dd in dds:
            for comp in comps:
                i += 1
                f = dict(fam)
                if s in seeds[nq:]:
                    f.update(n=4, b=2)
                out.append(P(kind="dd", dd=dd, comp=comp, seed=s, width="1,2,3", roots="all", rub=("hslack" if i % 2 else "none"), lb="sym", hist=0, rev=i % 2, perm=i % 2, props=props, **f, **lim))
    return out


FUNCS_SOLVE = [
    "ddo::SequentialSolver<St, D, C>::{custom, maximize, best_value, best_solution, best_lower_bound, best_upper_bound, set_primal, explored} for D in {Mdd<LEL>, Mdd<FRONTIER>, Pooled}, C in {EmptyCache, SimpleCache}",
    "ddo::{SimpleFringe, NoDupFringe}<MaxUB<ByMask>>, ddo::{FixedWidth, NbUnassignedWidth}, ddo::SimpleCache, everything compile() reaches",
]


def _solve_bundles(tier, seed, find, props, modes, fams=None, dds=DD3, caches=("0", "1"), fringes=("simple", "nodup"), widths=("1", "2", "0"), nseeds=None, kmax=40, directed=()):
    lim = _limits(tier)
    base = seed * 1000
    nq = nseeds or (2 if tier == "quick" else 10)
    if fams is None:
        fams = [
            dict(n=3, b=2, d=2, setnext=1, nsym=6),
            dict(n=3, b=3, d=2, setnext=1, nsym=5),
            dict(n=3, b=3, d=2, setnext=0, nsym=6, depth_free=1),
            dict(n=3, b=2, d=2, setnext=1, nsym=5, bonus=1),
            dict(n=4, b=2, d=2, setnext=1, nsym=5, perm=1),
            dict(n=3, b=3, d=3, setnext=1, nsym=4),  # three values per variable: wider layers, larger cut-sets and fringes
        ]
    out = []
    i = 0
    if "plain" in modes or "cutoff" in modes:
        deep = dict(n=4, b=3, d=2, setnext=1, nsym=6)
        for s in find([], deep, 4 if tier == "quick" else 16, base + 1, dyn=dict(notes="merge_equals_other_layer_state,cutset_nonempty", dd="frontier", width=2, tries=24)):
            for dd in dds:
                i += 1
                for ca in caches:
                    out.append(P(kind="solve", dd=dd, cache=ca, fringe=fringes[i % len(fringes)], width="2", mode=modes[0], seed=s, rub="none", rev=i % 2, sym_init=0, warm=0, kmax=kmax, props=props, **deep, **lim))
    if "plain" in modes:
        nscan = 4000 if tier == "quick" else 30000
        scan_fams = [dict(n=4, b=3, d=2, setnext=1), dict(n=5, b=2, d=2, setnext=1, depth_free=1), dict(n=4, b=3, d=2, setnext=1, long_arcs=1, depth_free=1)]
        scan_keys = [(fam, dd, ca, fr) for fam in scan_fams for dd in dds for ca in caches for fr in fringes]
        scan_hits = _pfind(find, [(([], fam, 1, base + 1), dict(dyn=dict(_solve=True, notes="VIOLATION", dd=dd, cache=ca, fringe=fr, width=1, tries=4), count=nscan)) for (fam, dd, ca, fr) in scan_keys])
        for (fam, dd, ca, fr), hits in zip(scan_keys, scan_hits):
            if True:
                if True:
                    if True:
                        for s in hits:
                            i += 1
                            out.append(P(kind="solve", dd=dd, cache=ca, fringe=fr, width="1", mode="plain", seed=s, rub="none", rev=0, sym_init=0, warm=0, kmax=kmax, props=props, nsym=6, **fam, **lim))
    for fi, fam in enumerate(fams):
        seeds = [base + 100 * fi + k + 1 for k in range(nq)]
        for feat in directed:
            seeds += find([feat], {k: v for k, v in fam.items() if k != "nsym"}, 1, base + 100 * fi + 50)
        for s in seeds:
            for dd in dds:
                for mode in modes:
                    i += 1
                    for ca in caches:
                        for fr in fringes:
                            out.append(P(kind="solve", dd=dd, cache=ca, fringe=fr, width=",".join(widths), mode=mode, seed=s, rub=("hslack" if i % 2 else "none"), rev=i % 2, sym_init=(1 if i % 3 == 0 else 0), warm=i % 5, kmax=kmax, props=props, **fam, **lim))
    return out


def _polls_bundles(tier, seed, props):
    """one-run oracle for all cut-off points at once (Mode::Polls), on slightly larger models"""
    lim = dict(max_paths=600, max_secs=15) if tier == "quick" else dict(max_paths=20000, max_secs=600)
    base = seed * 1000
    nq = 4 if tier == "quick" else 16
    out = []
    i = 0
    for fi, fam in enumerate([dict(n=4, b=2, d=2, setnext=1, nsym=5), dict(n=3, b=3, d=2, setnext=1, nsym=5), dict(n=4, b=2, d=2, setnext=0, nsym=5, depth_free=1), dict(n=4, b=3, d=3, setnext=1, nsym=4)]):
        # (the last family has three values per variable: cut-sets of four and more nodes, i.e. a fringe heap of depth 3)
        for k in range(nq):
            s = base + 300 + 20 * fi + k
            for dd in DD3:
                i += 1
                out.append(P(kind="solve", dd=dd, cache=str(i % 2), fringe=("nodup" if (i // 2) % 2 or (fi == 3 and k % 2 == 0) else "simple"), width="1,2", mode="polls", seed=s, rub=("none" if i % 4 == 0 or (fi == 3 and k % 2 == 0) else "hslack"), rev=i % 2, props=props, **fam, **lim))
    return out


FUNCS_PAR = [
    "ddo::ParallelSolver<St, D, C>::{custom, with_nb_threads, maximize, best_value, best_solution, best_lower_bound, best_upper_bound, set_primal} incl. private get_workload / process_one_node / enqueue_cutset / maybe_update_best / notify_node_finished / abort_search, run by real worker threads",
    "parking_lot::{Mutex, Condvar} and dashmap::DashMap replaced by scheduler facades (symx/facades): every lock acquisition, condvar wait, worker exit (and, with mapyield=1, every cache call) is a recorded scheduling choice",
]


def _par_bundles(tier, seed, props, modes, variants=None, nseeds=None, dds=DD3):
    """variants: list of dicts with threads / threads_after / preempt / mapyield / cache / fringe"""
    lim = dict(max_paths=800, max_secs=15) if tier == "quick" else dict(max_paths=30000, max_secs=900)
    base = seed * 1000
    nq = nseeds or (2 if tier == "quick" else 8)
    if variants is None:
        variants = [
            dict(threads=2, preempt=1, cache=0, fringe="simple"),
            dict(threads=2, preempt=2, cache=0, fringe="nodup"),
            dict(threads=3, preempt=1, cache=0, fringe="simple"),
            dict(threads=2, preempt=1, cache=1, fringe="simple", mapyield=1),
            dict(threads=2, preempt=1, cache=1, fringe="nodup"),
            dict(threads=1, preempt=0, cache=1, fringe="simple"),
        ]
        if tier != "quick":
            variants += [dict(threads=3, preempt=2, cache=0, fringe="simple"), dict(threads=4, preempt=1, cache=1, fringe="nodup"), dict(threads=2, preempt=3, cache=0, fringe="simple"), dict(threads=2, preempt=2, cache=1, fringe="simple", mapyield=1)]
    fams = [dict(n=3, b=2, d=2, setnext=1, nsym=3), dict(n=3, b=3, d=2, setnext=1, nsym=2)]
    out = []
    i = 0
    for fi, fam in enumerate(fams):
        for k in range(nq):
            s = base + 400 + 30 * fi + k
            for dd in dds:
                for mode in modes:
                    for v in variants:
                        i += 1
                        b = dict(kind="par", dd=dd, width=("2" if i % 3 == 0 else "1"), mode=mode, seed=s, rub=("hslack" if i % 2 else "none"), rev=i % 2, warm=i % 4, kmax=(16 if mode == "cutoff" else 30), props=props, **fam, **lim)
                        b.update(v)
                        b["_engine"] = "sched"
                        out.append(P(**b))
    return out


def _par_deep(tier, seed, props, mode):
    """2 workers, 2 pre-emptions, 4 symbolic costs, many small structures (publication / abort races)"""
    limd = dict(max_paths=3000, max_secs=30) if tier == "quick" else dict(max_paths=60000, max_secs=1200)
    out = []
    for k in range(14 if tier == "quick" else 48):
        out.append(P(kind="par", dd=("lel" if k % 3 else "frontier"), cache=str(k % 2 if k % 4 == 3 else 0), fringe="simple", width="1", threads=2, preempt=2, mode=mode, seed=seed * 1000 + 600 + k, rub="none", rev=k % 2, kmax=14, props=props, n=3, b=2, d=2, setnext=1, nsym=4, _engine="sched", **limd))
    return out


def _par_probe_bundles(tier, seed, props, mode="plain", caches=(0, 1), single_worker=False):
    """probe-directed selection for the scheduled runs: a concrete pre-scan (pseudo-random costs AND a pseudo-random
    schedule with up to 3-6 pre-emptions, ~0.5 ms per run) looks for (structure, costs, schedule) on which ONE concrete run
    of the parallel solver already violates an obligation; the scheduled symbolic exploration then STARTS from that run
    (eseed / schedinit), decides it (the first path's obligations are evaluated under its own model and by the solver)
    and explores around it.  Nothing is found on a tree where the property holds."""
    import concurrent.futures as cf
    import subprocess
    from . import build as _b
    try:
        binp, _ = _b.ensure_symx(sched=True)
    except _b.BuildError:
        return []
    lim = dict(max_paths=300, max_secs=20) if tier == "quick" else dict(max_paths=5000, max_secs=300)
    count, tries = (400, 15) if tier == "quick" else (3000, 30)
    cfgs = [
        dict(n=4, b=3, d=2, threads=2, preempt=3, width=1), dict(n=5, b=2, d=2, threads=2, preempt=4, width=1),
        dict(n=4, b=3, d=3, threads=2, preempt=3, width=1), dict(n=4, b=2, d=2, threads=2, preempt=5, width=1),
        dict(n=4, b=3, d=2, threads=3, preempt=4, width=1), dict(n=5, b=3, d=2, threads=2, preempt=3, width=2),
    ]
    if single_worker:
        # deterministic (one worker, no pre-emption): the parallel solver's own use of the cache, many more structures
        cfgs = [dict(c, threads=1, preempt=0) for c in cfgs]
        count, tries = count * 4, 5
    jobs = []
    for ci, cfg in enumerate(cfgs):
        for ca in caches:
            for dd in (("lel", "pooled") if ci % 2 == 0 else ("frontier",)):
                a = dict(kind="finddynpar", dd=dd, cache=ca, fringe=("nodup" if (ci + ca) % 3 == 2 else "simple"), mode=mode, props=props, setnext=1, start=seed * 1000 + 1, count=count, take=2, tries=tries, kmax=14, **cfg)
                if ca:
                    a["mapyield"] = 1
                jobs.append(a)

    def one(a):
        try:
            out = subprocess.run([binp] + ["%s=%s" % kv for kv in a.items()], stdout=subprocess.PIPE, stderr=subprocess.DEVNULL, text=True, timeout=(120 if tier == "quick" else 900)).stdout.strip().splitlines()
        except subprocess.TimeoutExpired:
            return a, []
        hits = []
        for tok in (out[-1].split(",") if out else []):
            if ":" in tok:
                s_, e_ = tok.split(":")
                hits.append((int(s_), int(e_)))
        return a, hits

    out = []
    with cf.ThreadPoolExecutor(max_workers=16) as ex:
        for a, hits in ex.map(one, jobs):
            for (s_, e_) in hits:
                b = {k: v for k, v in a.items() if k not in ("kind", "start", "count", "take", "tries")}
                out.append(P(kind="par", seed=s_, eseed=e_, schedinit=e_, rub="none", rev=0, _engine="sched", **b, **lim))
    return out


def _knap_bundles(tier, seed, props):
    """bounded knapsack (each item 0..3 times: non-binary domains, value-ordered states, first layer wider than the width)"""
    limk = dict(max_paths=1500, max_secs=20) if tier == "quick" else dict(max_paths=40000, max_secs=900)
    out = []
    for k in range(8 if tier == "quick" else 32):
        out.append(P(kind="knap", dd=DD3[k % 3], cache=str(k % 2), dom="off", width="2,3", fringe=("nodup" if k % 4 == 3 else "simple"), n=3, nsym=3, copies=3, seed=seed * 1000 + 1 + k, props=props, **limk))
    return out


def plan(prop, tier, seed, find):
    """returns dict(engine, bundles, prefixes, vacuity, functions, bounds, nontrivial(rule text, fn))"""
    bound_dd = ("table models over mask states: n<=4 variables, <=3 base states, 2-3 decisions; all symbolic arc costs in +-10^6, incumbent in +-10^7 or none, "
                "rough upper bound = none or h(state)+slack with symbolic slack in 0..1000; widths 1..3; every reachable exact state as sub-problem root; 0-2 prior compilations on the same object; "
                "per sub-case budget %s" % _limits(tier))
    if prop == "C06":
        return dict(engine="symx", bundles=_dd_bundles(tier, seed, find, "C06", ["relaxed"], [1, 2, 3], lbs=("sym", "sym", "none")), prefixes=["C06:"],
                    vacuity=dict(merge=1, dd_exact=1, dd_inexact=1), functions=FUNCS_DD, bounds=bound_dd,
                    nontrivial=("decided sub-case in which at least one merge happened on some path", lambda r: r["notes"].get("merge", 0) > 0))
    if prop == "C07":
        return dict(engine="symx", bundles=_dd_bundles(tier, seed, find, "C07", ["restricted", "exact"], [1, 2, 3], lbs=("sym", "none")), prefixes=["C07:"],
                    vacuity=dict(dd_exact=1, dd_inexact=1), functions=FUNCS_DD, bounds=bound_dd,
                    nontrivial=("decided sub-case with >= 2 explored paths (the layer order or truncation depends on the costs)", lambda r: r["paths"] >= 2))
    if prop == "C08":
        b = _dd_bundles(tier, seed, find, "C08", ["relaxed"], [1, 2, 3]) + _long_arc_bundles(tier, seed, find, "C08", ["relaxed"], dds=DD3)
        return dict(engine="symx", bundles=b, prefixes=["C08:"], vacuity=dict(cutset_nonempty=1, cutset_mixed_depths=1), functions=FUNCS_DD, bounds=bound_dd + "; plus depth-free long-arc models (irrelevance masks) on all three diagram types",
                    nontrivial=("decided sub-case in which a non-empty cut-set was handed out on some path", lambda r: r["notes"].get("cutset_nonempty", 0) > 0))
    if prop == "C12":
        b = _dd_bundles(tier, seed, find, "C12", ["relaxed", "restricted", "exact"], [1, 2]) + _long_arc_bundles(tier, seed, find, "C12", ["relaxed", "restricted"])
        # state-wise irrelevance (a whole mask skips a variable): the union merge is not a sound relaxation there, which the
        # protocol clauses do not need; a merged state can then equal the state of a node that waits in the pool
        lim12 = _limits(tier)
        sw = dict(n=4, b=3, d=2, setnext=1, statewise=1, depth_free=1)
        base12 = seed * 1000
        for w in (1, 2, 3):
            for comp in ("relaxed", "restricted"):
                seeds = [base12 + 900 + w] + find([], sw, 2, base12 + 1, dyn=dict(notes="VIOLATION", dd="pooled", comp=comp, width=w, roots=0, props="C12", tries=3), count=(6000 if tier == "quick" else 30000))
                for s in seeds:
                    for dd in (("pooled",) if s != seeds[0] else DD3):
                        b.append(P(kind="dd", dd=dd, comp=comp, seed=s, width=str(w), roots="0", rub="none", lb="none", hist=0, rev=0, props="C12", nsym=8, **sw, **lim12))
        return dict(engine="symx", bundles=b, prefixes=["C12:"], vacuity=dict(merge=1), functions=FUNCS_DD + ["callbacks observed: Problem::{transition,transition_cost,next_variable,for_each_in_domain}, Relaxation::{merge,relax}"], bounds=bound_dd,
                    nontrivial=("decided sub-case with at least one merge (relax() was called)", lambda r: r["notes"].get("merge", 0) > 0))
    if prop == "C13":
        b = _dd_bundles(tier, seed, find, "C13", ["relaxed", "restricted"], [1, 2, 3, 4, 5], extra_fams=True)
        return dict(engine="symx", bundles=b, prefixes=["C13:"], vacuity=dict(layer_wider_than_width=1), functions=FUNCS_DD + ["kani: Times::max_width, DivBy::max_width, NbUnassignedWidth::max_width, FixedWidth::max_width"], bounds=bound_dd + "; widths 1..5",
                    nontrivial=("decided sub-case with >= 2 explored paths", lambda r: r["paths"] >= 2), kani=["C13"])
    if prop == "C20":
        b = _dd_bundles(tier, seed, find, "C20", ["relaxed", "restricted", "exact"], [1, 2], extra_fams=(tier != "quick"), viz_all=True)
        # diagrams compiled against a non-empty cache (solver-step replay of the C09 harness): nodes pruned by a threshold
        ii = 0
        for k in range(4 if tier == "quick" else 16):
            for dd in DD3:
                ii += 1
                b.append(P(kind="dd", dd=dd, comp="relaxed", seed=seed * 1000 + 800 + k, width="1,2", roots="0", rub="none", lb=("sym" if ii % 2 else "none"), hist=3, hist_seed=ii % 3, rev=0, props="C09step,C20".replace("C09step", "C09"), n=4, b=2, d=2, setnext=1, nsym=6, viz_all=(1 if ii % 3 == 0 else 0), **_limits(tier)))
        return dict(engine="symx", bundles=b, prefixes=["C20:"], vacuity=dict(viz_checked=1, cache_hit_in_compile=1), functions=FUNCS_DD, bounds=bound_dd + "; all 64 flag combinations on every explored path",
                    nontrivial=("decided sub-case with >= 2 explored paths", lambda r: r["paths"] >= 2))
    bound_solve = ("table models over mask states: n<=4 variables, <=3 base states, 2 decisions, 4-6 symbolic arc costs in +-10^6 (the other costs concrete, seeded), "
                   "configurations {LEL, frontier, pooled} x {no cache, SimpleCache} x {SimpleFringe, NoDupFringe} x widths {1, 2, NbUnassigned} x rub {none, h+symbolic slack} x both rankings; per sub-case budget %s" % _limits(tier))
    def cached_directed(props_):
        famd = dict(n=4, b=2, d=2, setnext=1, nsym=6)
        out_ = []
        for k, sd in enumerate(find([], famd, 6 if tier == "quick" else 32, seed * 1000 + 1, dyn=dict(_solve=True, notes="cache_skip_at_pop", dd="lel", width=1, tries=24))):
            for dd in ("lel", "frontier", "pooled"):
                out_.append(P(kind="solve", dd=dd, cache=1, fringe=("nodup" if k % 2 else "simple"), width="1,2", mode="plain", seed=sd, rub="none", rev=0, sym_init=0, warm=0, kmax=40, props=props_, **famd, **_limits(tier)))
        return out_

    if prop == "C01":
        return dict(engine="symx", bundles=_solve_bundles(tier, seed, find, "C01", ["plain"], directed=("dead_end",)) + cached_directed("C01") + _knap_bundles(tier, seed, "C01"), prefixes=["C01:", "nontermination"], vacuity=dict(explored_ge2=1, merge=1), functions=FUNCS_SOLVE, bounds=bound_solve,
                    nontrivial=("decided sub-case in which the solver processed >= 2 sub-problems on some path", lambda r: r["notes"].get("explored_ge2", 0) > 0))
    if prop == "C02":
        return dict(engine="symx", bundles=_solve_bundles(tier, seed, find, "C02", ["plain", "cutoff"], nseeds=(1 if tier == "quick" else 6)) + _par_bundles(tier, seed, "C02", ["plain", "cutoff"], nseeds=(1 if tier == "quick" else 4), dds=["lel", "pooled"]) + _knap_bundles(tier, seed, "C02"), prefixes=["C02:"], vacuity=dict(interrupted=1, not_interrupted=1), functions=FUNCS_SOLVE, bounds=bound_solve + "; cut-off poll K symbolic in 1..40 (every poll of the run forks)",
                    nontrivial=("decided sub-case with >= 2 explored paths", lambda r: r["paths"] >= 2))
    if prop == "C05":
        return dict(engine="symx", bundles=_solve_bundles(tier, seed, find, "C05", ["cutoff"]) + _polls_bundles(tier, seed, "C05") + _par_bundles(tier, seed, "C05", ["cutoff"], nseeds=(1 if tier == "quick" else 6)) + _par_deep(tier, seed, "C05", "cutoff") + _par_probe_bundles(tier, seed, "C05", mode="cutoff"), prefixes=["C05:"], vacuity=dict(interrupted=1, not_interrupted=1, polls_ge8=1), functions=FUNCS_SOLVE, bounds=bound_solve + "; cut-off poll K symbolic in 1..40 (sequential solver; parallel part see C05 in DESIGN.md)",
                    nontrivial=("decided sub-case in which the cut-off interrupted the run on some path", lambda r: r["notes"].get("interrupted", 0) > 0))
    if prop == "C19":
        return dict(engine="symx", bundles=_solve_bundles(tier, seed, find, "C19", ["cutoff2"]) + _polls_bundles(tier, seed, "C19"), prefixes=["C19:"], vacuity=dict(interrupted=1, boundary=1, polls_ge8=1), functions=FUNCS_SOLVE, bounds=bound_solve + "; two solver runs with cut-off at poll K and K+1 inside one symbolic execution, K symbolic in 1..40; plus, on n=4 models, one uninterrupted run whose wrappers record the upper bound at every poll (covers all K at once; counterexamples are replayed with real cut-off runs)",
                    nontrivial=("decided sub-case in which the cut-off interrupted the run on some path", lambda r: r["notes"].get("interrupted", 0) > 0))
    if prop == "C14":
        parw = _par_bundles(tier, seed, "C14", ["warm"], variants=[dict(threads=1, preempt=0, cache=0, fringe="simple"), dict(threads=1, preempt=0, cache=1, fringe="nodup"), dict(threads=2, preempt=1, cache=1, fringe="simple")], nseeds=(1 if tier == "quick" else 6))
        return dict(engine="symx", bundles=_solve_bundles(tier, seed, find, "C14", ["warm"]) + parw + _par_deep(tier, seed, "C14", "warm"), prefixes=["C14:"], vacuity=dict(merge=1), functions=FUNCS_SOLVE, bounds=bound_solve + "; primal = value and decisions of an enumerated feasible path (index seeded)",
                    nontrivial=("decided sub-case with >= 2 explored paths", lambda r: r["paths"] >= 2))
    if prop == "C09":
        fams = [dict(n=3, b=2, d=2, setnext=1, nsym=6), dict(n=4, b=2, d=2, setnext=1, nsym=6), dict(n=4, b=2, d=2, setnext=0, nsym=7), dict(n=3, b=3, d=2, setnext=1, nsym=5, depth_free=1)]
        # diagram-level inductive invariant of the thresholds (restricted + relaxed compilation with the real SimpleCache, then a second step)
        inv = []
        limi = dict(max_paths=300, max_secs=6) if tier == "quick" else dict(max_paths=20000, max_secs=600)
        ii = 0
        for k in range(4 if tier == "quick" else 24):
            for dd in DD3:
                ii += 1
                inv.append(P(kind="dd", dd=dd, comp="relaxed", seed=seed * 1000 + 800 + k, width="1,2", roots="all", rub=("hslack" if ii % 4 else "none"), lb="sym", hist=(1 if ii % 2 else 2), hist_seed=ii, rev=ii % 2, props="C09", n=3, b=3, d=2, setnext=1, **limi))
        for k in range(2 if tier == "quick" else 12):
            for dd in DD3:
                ii += 1
                inv.append(P(kind="dd", dd=dd, comp="relaxed", seed=seed * 1000 + 850 + k, width="2", roots="0", rub="hslack", lb="sym", hist=2, hist_seed=ii, rev=ii % 2, props="C09", n=4, b=2, d=2, setnext=1, nsym=8, **limi))
        # deep multi-step variant: n=5, width 1, up to five consecutive solver steps (oldest open node first) so that a later
        # diagram meets thresholds cached by an earlier one; seeds directed on "a compilation hit the cache"
        famv = dict(n=5, b=2, d=2, setnext=1, nsym=8)
        limv = dict(max_paths=400, max_secs=8) if tier == "quick" else dict(max_paths=20000, max_secs=600)
        for sd in find([], famv, 6 if tier == "quick" else 32, seed * 1000 + 1, dyn=dict(notes="cache_hit_in_compile", dd="lel", width=1, roots=0, hist=4, hist_seed=0, props="C09", tries=16)):
            for dd in DD3:
                ii += 1
                inv.append(P(kind="dd", dd=dd, comp="relaxed", seed=sd, width="1", roots="0", rub=("hslack" if ii % 3 == 0 else "none"), lb=("sym" if ii % 2 else "none"), hist=4, hist_seed=(ii % 3), rev=0, props="C09", **famv, **limv))
        parc = _par_bundles(tier, seed, "C09", ["plain"], variants=[dict(threads=2, preempt=1, cache=1, fringe="simple", mapyield=1), dict(threads=2, preempt=2, cache=1, fringe="nodup"), dict(threads=3, preempt=1, cache=1, fringe="simple")], nseeds=(1 if tier == "quick" else 6))
        # the parallel solver's own use of the cache (thresholds written at pop time): probe-directed, one worker
        # (deterministic, many structures) and two or three workers
        parc += _par_probe_bundles(tier, seed, "C09", caches=(1,), single_worker=True) + _par_probe_bundles(tier, seed, "C09", caches=(1,))
        return dict(engine="symx", bundles=inv + _solve_bundles(tier, seed, find, "C09", ["plain"], fams=fams, caches=("1",), nseeds=(2 if tier == "quick" else 12)) + parc + cached_directed("C09"), prefixes=["C09:", "nontermination"], vacuity=dict(explored_ge2=1, explored_ge4=1, threshold_checked=1, second_step=1), functions=FUNCS_SOLVE + ["kani: Cache::must_explore"], bounds=bound_solve + "; SimpleCache only, re-convergent structures (2 base states per layer); diagram level: the solver step (restricted then relaxed compilation against the real SimpleCache, cut-set kept as open set) on every reachable root with symbolic incumbent, followed by one or two further steps on seeded cut-set nodes, threshold invariant checked after each step",
                    nontrivial=("decided sub-case in which the solver processed >= 2 sub-problems on some path", lambda r: r["notes"].get("explored_ge2", 0) > 0), kani=["C09"])
    bound_par = ("table models n=3, <=3 base states, 2-3 symbolic arc costs; 1-3 workers (thorough: up to 4), pre-emption bound 1-2 (thorough: up to 3), every lock acquisition / condvar wait / worker exit a scheduling choice, "
                 "cache calls too where mapyield=1; step bound 3000; counterexamples replay concretely on the scheduled build; per sub-case budget quick 800 paths/15 s")
    if prop == "C03":
        # deeper on the publication races: 2 workers, 2 pre-emptions, 4 symbolic costs, many structures, one diagram type
        deep = []
        limd = dict(max_paths=4000, max_secs=40) if tier == "quick" else dict(max_paths=60000, max_secs=1200)
        for k in range(14 if tier == "quick" else 48):
            deep.append(P(kind="par", dd=("lel" if k % 3 else "frontier"), cache=str(k % 2 if k % 4 == 3 else 0), fringe="simple", width="1", threads=2, preempt=2, mode="plain", seed=seed * 1000 + 600 + k, rub="none", rev=k % 2, props="C03", n=3, b=2, d=2, setnext=1, nsym=4, _engine="sched", **limd))
        return dict(engine="sched", bundles=_par_bundles(tier, seed, "C03", ["plain"]) + deep + _par_probe_bundles(tier, seed, "C03"), prefixes=["C03:", "C04:", "nontermination"], vacuity=dict(context_switch=1, preemption=1, condvar_wait=1, explored_ge2=1), functions=FUNCS_PAR, bounds=bound_par,
                    nontrivial=("decided sub-case with at least one pre-emptive context switch on some path", lambda r: r["notes"].get("preemption", 0) > 0))
    if prop == "C04":
        variants = [dict(threads=c, threads_after=t, preempt=p, cache=ca, fringe="simple") for (c, t, p, ca) in [(1, 2, 1, 0), (2, 1, 1, 0), (2, 3, 1, 0), (1, 3, 1, 1), (2, 2, 2, 0), (3, 2, 1, 1), (1, 1, 0, 0)]]
        # deeper data exploration with the cache on (stale fringe nodes discarded at pop time): few workers, larger models
        deep = []
        limd = dict(max_paths=1500, max_secs=20) if tier == "quick" else dict(max_paths=40000, max_secs=900)
        famd = dict(n=4, b=2, d=2, setnext=1, nsym=6)
        stale = find([], famd, 8 if tier == "quick" else 32, seed * 1000 + 1, dyn=dict(_solve=True, notes="cache_skip_at_pop", dd="lel", width=1, tries=24))
        for k, sd in enumerate(stale + [seed * 1000 + 650 + j for j in range(4 if tier == "quick" else 16)]):
            deep.append(P(kind="par", dd="lel,frontier", cache=1, fringe=("nodup" if k % 4 == 3 else "simple"), width="1,2", threads=(2 if k % 3 == 2 else 1), preempt=(1 if k % 3 == 2 else 0), mode="plain", seed=sd, rub="none", rev=0, props="C04", _engine="sched", **famd, **limd))
        return dict(engine="sched", bundles=_par_bundles(tier, seed, "C04", ["plain", "cutoff"], variants=variants, nseeds=(1 if tier == "quick" else 5)) + deep + _par_probe_bundles(tier, seed, "C04") + _par_probe_bundles(tier, seed, "C04", mode="cutoff"), prefixes=["C04:", "nontermination"], vacuity=dict(context_switch=1, condvar_wait=1, interrupted=1), functions=FUNCS_PAR,
                    bounds=bound_par + "; thread count at construction 1..3 and after with_nb_threads 1..3 (including counts larger and smaller than at construction); cut-off poll K symbolic in 1..16",
                    nontrivial=("decided sub-case with at least one condvar wait on some path", lambda r: r["notes"].get("condvar_wait", 0) > 0))
    if prop == "C15":
        lim = _limits(tier)
        base = seed * 1000
        fam = dict(n=3, b=3, d=2, setnext=1, long_arcs=1, depth_free=1, nsym=7)
        fam4 = dict(n=4, b=3, d=2, setnext=1, long_arcs=1, depth_free=1, nsym=7)
        nq = 10 if tier == "quick" else 32
        seeds = [(s, fam) for s in find(["lingering_root_child"], {k: v for k, v in fam.items() if k != "nsym"}, nq, base + 1)]
        seeds += [(s, fam4) for s in find(["arc_spanning_2"], {k: v for k, v in fam4.items() if k != "nsym"}, nq, base + 1)]
        seeds += [(base + 900 + k, fam) for k in range(nq // 2)]
        b = []
        i = 0
        for s, f in seeds:
            for dd in ("pooled", "lel"):
                for ca in ("0", "1"):
                    i += 1
                    b.append(P(kind="solve", dd=dd, cache=ca, fringe=("nodup" if i % 3 == 0 else "simple"), width="1,2,3", mode="plain", seed=s, rub="none", rev=i % 2, perm=(i // 2) % 2, props="C15,C02", **f, **lim))
        # probe-directed: structures on which a concrete probe run of the pooled solver already misbehaves (budget, wrong value)
        scan_keys = [(famx, ca, w, fr) for famx in (fam, fam4, dict(n=5, b=2, d=2, setnext=1, long_arcs=1, depth_free=1, nsym=7), dict(n=6, b=2, d=2, setnext=1, long_arcs=1, depth_free=1, nsym=7), dict(n=5, b=3, d=2, setnext=1, long_arcs=1, depth_free=1, nsym=7)) for ca in ("0", "1") for w in (1, 2) for fr in ("simple", "nodup")]
        scan_hits = _pfind(find, [(([], {k: v for k, v in famx.items() if k != "nsym"}, 2, base + 1), dict(dyn=dict(_solve=True, notes="VIOLATION", dd="pooled", cache=ca, fringe=fr, width=w, tries=4), count=(20000 if tier == "quick" else 100000))) for (famx, ca, w, fr) in scan_keys])
        for (famx, ca, w, fr), hits in zip(scan_keys, scan_hits):
            if True:
                if True:
                    if True:
                        for s in hits:
                            b.append(P(kind="solve", dd="pooled", cache=ca, fringe=fr, width=str(w), mode="plain", seed=s, rub="none", rev=0, props="C15,C02", **famx, **lim))
        # parallel pooled solver on long-arc models (scheduled)
        limp = dict(max_paths=800, max_secs=15) if tier == "quick" else dict(max_paths=30000, max_secs=900)
        lingering = find(["lingering_root_child"], {k: v for k, v in fam.items() if k != "nsym"}, 4 if tier == "quick" else 16, base + 1)
        for k, s in enumerate(lingering):
            for ca in ("0", "1"):
                b.append(P(kind="par", dd="pooled", cache=ca, fringe=("nodup" if k % 2 else "simple"), width=("2" if k % 3 == 0 else "1"), threads=2, preempt=(2 if k % 2 else 1), mode="plain", seed=s, rub="none", rev=0, props="C15,C02", n=3, b=3, d=2, setnext=1, long_arcs=1, depth_free=1, nsym=3, _engine="sched", **limp))
        return dict(engine="symx", bundles=b, prefixes=["C15:", "C02:solution", "C04:", "nontermination"], vacuity=dict(explored_ge2=1), functions=FUNCS_SOLVE + ["ddo::Pooled::_move_to_next_layer (is_impacted_by / long arcs)"],
                    bounds=bound_solve + "; depth-free table models with irrelevance masks (a state not impacted by a variable keeps its state at cost 0 under a neutral default decision), static and permuted variable orders, widths 1..3; Pooled compared with the optimum and (same obligations) with Mdd<LEL> in which every state is expanded on every variable; termination through a budget of 20000 model callbacks",
                    nontrivial=("decided sub-case in which the solver processed >= 2 sub-problems on some path", lambda r: r["notes"].get("explored_ge2", 0) > 0))
    if prop == "C11":
        lim = _limits(tier)
        base = seed * 1000
        nb = 8 if tier == "quick" else 40
        b = []
        for k in range(nb):
            for fr in ("nodup", "simple"):
                b.append(P(kind="fringe", fringe=fr, len=(6 if tier == "quick" else 8), states=2, depths=2, seed=base + 1 + 5 * k, count=5, **lim))
        # heap-shaped histories: 4-5 pushes on distinct keys, optional re-push / early pop, then drained
        for k in range(6 if tier == "quick" else 24):
            for fr in ("nodup", "simple"):
                b.append(P(kind="fringe", fringe=fr, fill=(4 if k % 2 == 0 else 5), states=3, depths=2, seed=base + 300 + 3 * k, count=3, **(dict(max_paths=2500, max_secs=30) if tier == "quick" else lim)))
        # fill / pop / re-push / drain: keys pushed again AFTER a pop has moved nodes around in the heap
        for k in range(6 if tier == "quick" else 24):
            for fr in ("nodup", "simple"):
                b.append(P(kind="fringe", fringe=fr, fill=(3 if k % 2 == 0 else 4), repush=1, states=3, depths=2, seed=base + 400 + 3 * k, count=3, **(dict(max_paths=2500, max_secs=30) if tier == "quick" else lim)))
        # solver level: models whose state does not embed the depth, duplicate-free fringe
        fams = [dict(n=3, b=2, d=2, setnext=1, nsym=5, depth_free=1), dict(n=4, b=2, d=2, setnext=0, nsym=5, depth_free=1)]
        b += _solve_bundles(tier, seed, find, "C11", ["plain"], fams=fams, fringes=("nodup",), nseeds=(2 if tier == "quick" else 8))
        return dict(engine="symx", bundles=b, prefixes=["C11:", "nontermination"], vacuity=dict(coalesced=1, same_state_other_depth=1, pop_some=1), functions=["ddo::NoDupFringe<MaxUB<_>>::{push, pop, clear, len, is_empty} (incl. bubble_up / bubble_down / recycle bin)", "ddo::SimpleFringe<MaxUB<_>>::{push, pop, clear, len}", "ddo::MaxUB::compare, ddo::CompareSubProblem"] + FUNCS_SOLVE,
                    bounds="operation sequences of length %d (seeded, >= 2 pushes and >= 1 pop, then drained) over 2 states x 2 depths, value and upper bound of every push symbolic in +-1000, checked against a reference multiset / (state, depth)-keyed map; solver level: depth-free table models with NoDupFringe" % (6 if tier == "quick" else 8),
                    nontrivial=("decided sequence in which a push was coalesced or a pop returned an element", lambda r: r["notes"].get("pop_some", 0) > 0 or r["notes"].get("explored_ge2", 0) > 0), kani=["C11"])
    if prop == "C18":
        lim = _limits(tier)
        base = seed * 1000
        nb = 12 if tier == "quick" else 60
        b = [P(kind="cache", len=(5 if tier == "quick" else 7), seed=base + 1 + 5 * k, count=5, **lim) for k in range(nb)]
        for th, ops, pre in ([(2, 1, 2), (2, 2, 2), (3, 1, 2)] if tier == "quick" else [(2, 1, 3), (2, 2, 3), (3, 1, 3), (3, 2, 2), (4, 1, 2)]):
            b.append(P(kind="cacheconc", threads=th, ops=ops, preempt=pre, seed=base + 7, count=(2 if tier == "quick" else 6), _engine="sched", **lim))
        for k in range(4 if tier == "quick" else 16):
            b.append(P(kind="domorder", len=(3 if tier == "quick" else 4), use_value=(0 if k % 4 == 3 else 1), seed=base + 20 + k, count=1, **lim))
        for th, uv in [(2, 0), (2, 1), (3, 1)]:
            b.append(P(kind="domconc", threads=th, preempt=2, use_value=uv, seed=base + 9, count=1, _engine="sched", **lim))
        return dict(engine="symx+sched", bundles=b, prefixes=["C18:"], vacuity=dict(get_over_two_updates=1, clear_layer=1, preemption=1), functions=["ddo::SimpleCache::{initialize, get_threshold, update_threshold, clear_layer, clear}", "ddo::SimpleDominanceChecker::is_dominated_or_insert (concurrent phase)", "dashmap facade: every get / entry / insert / clear call of a worker is a scheduling choice"],
                    bounds="sequential: operation sequences of length 5 (+4 final reads) over 2 states x 2 depths, threshold values symbolic in +-1000, explored flag symbolic; concurrent: 2-3 threads x 1-2 (update, read) pairs on one key with symbolic values, every interleaving at call granularity within the pre-emption bound; dominance: 2-3 concurrent insertions with symbolic coordinates then 2 symbolic probes",
                    nontrivial=("decided case with a read over >= 2 updates, or a pre-empted concurrent phase", lambda r: r["notes"].get("get_over_two_updates", 0) > 0 or r["notes"].get("preemption", 0) > 0), kani=["C18"])
    if prop == "C10":
        lim = _limits(tier)
        base = seed * 1000
        b = []
        for k in range(6 if tier == "quick" else 24):
            for uv in (0, 1):
                b.append(P(kind="dominance", len=(3 if tier == "quick" else 4), use_value=uv, seed=base + 1 + k, count=1, **lim))
        limk = dict(max_paths=500, max_secs=8) if tier == "quick" else dict(max_paths=20000, max_secs=600)
        for k in range(2 if tier == "quick" else 10):
            for dd in DD3:
                for ca in ("0", "1"):
                    b.append(P(kind="knap", dd=dd, cache=ca, dom="full,partial", width="1,2", fringe=("nodup" if k % 2 else "simple"), n=4, nsym=3, seed=base + 50 + k, props="C10", **limk))
        # deeper: 5 items, 4 symbolic profits, cache on (dominance thresholds feed the cache thresholds), many instances
        limk2 = dict(max_paths=2000, max_secs=30) if tier == "quick" else dict(max_paths=40000, max_secs=900)
        for k in range(14 if tier == "quick" else 48):
            b.append(P(kind="knap", dd=DD3[k % 3], cache=1, dom=("partial" if k % 4 == 3 else "full"), width="1,2", fringe=("nodup" if k % 5 == 4 else "simple"), n=5, nsym=4, seed=base + 1 + k, props="C10", **limk2))
        # bounded copies (non-binary domains), frontier cut-set, cache on: exact nodes below the first merged layer are cached
        for k in range(10 if tier == "quick" else 40):
            b.append(P(kind="knap", dd=("frontier" if k % 3 != 2 else "pooled"), cache=1, dom="full", width="2,3", fringe=("nodup" if k % 4 == 3 else "simple"), n=4, nsym=4, copies=2, seed=base + 100 + k, props="C10", **limk2))
        return dict(engine="symx", bundles=b, prefixes=["C10:"], vacuity=dict(dominated=1, explored_ge2=1), functions=["ddo::SimpleDominanceChecker::{new, is_dominated_or_insert, cmp}", "ddo::Dominance::{partial_cmp, cmp} (Kani, [isize;3])"],
                    bounds="sequences of 3 (thorough 4) queries + 2 probes, key pattern seeded (same / different / no key), 2 coordinates and the value of every query symbolic in +-100, with and without value; reference keeps every recorded state; solver level: 4-item knapsacks (seeded weights/capacity, 3 symbolic profits in -50..100) with the rule 'more capacity and more value dominates' on all layers and on even layers only, all diagram types, cache on/off, widths 1-2",
                    nontrivial=("decided sequence in which at least one query was reported dominated", lambda r: r["notes"].get("dominated", 0) > 0), kani=["C10"])
    if prop == "C17":
        return dict(engine="kani", bundles=[], prefixes=[], vacuity={}, functions=[], bounds="none: Solver::gap is loop-free; all 2^128 pairs (lb, ub) with lb <= ub, IEEE-754 f32 semantics, decided by CBMC",
                    nontrivial=("n/a", lambda r: False), kani=["C17"])
    raise KeyError(prop)
