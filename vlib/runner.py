"""Runs harness bundles in a process pool, aggregates reports, replays
counterexamples natively, applies the known-findings policy, writes evidence."""
import concurrent.futures as cf
import hashlib, json, os, re, subprocess, sys, time

from . import build

VERIF = build.VERIF
NPROC = int(os.environ.get("VERIF_JOBS", "16"))


def args_of(d):
    return ["%s=%s" % (k, v) for k, v in d.items()]


def run_bundle(binp, bundle, timeout, deadline=None):
    """one harness invocation; returns (bundle, [json records], error or None, secs)"""
    t0 = time.time()
    if deadline is not None and t0 > deadline:
        # the tier's wall-clock budget is spent: the bundle is NOT run (listed in evidence, never counted as decided)
        return bundle, [], "skipped: wall budget of the tier spent before this bundle started", 0.0
    if deadline is not None:
        # a bundle that is still running two minutes after the budget is spent is stopped; the sub-cases it has already
        # reported are kept, the others are listed as incomplete (timeout)
        timeout = min(timeout, max(30.0, deadline + 120.0 - t0))
    env = dict(os.environ)
    if bundle.get("_solver"):
        env["SYMX_SOLVER"] = bundle["_solver"]
    argv = [binp] + args_of({k: v for k, v in bundle.items() if not k.startswith("_")})
    try:
        p = subprocess.run(argv, stdout=subprocess.PIPE, stderr=subprocess.PIPE, text=True, timeout=timeout, env=env)
    except subprocess.TimeoutExpired as e:
        out = e.stdout or ""
        if isinstance(out, bytes):
            out = out.decode("utf-8", "replace")
        recs = _parse(out)
        return bundle, recs, "timeout after %ds (bundle stopped: per-bundle limit or wall budget of the tier)" % timeout, time.time() - t0
    recs = _parse(p.stdout)
    err = None
    if p.returncode != 0:
        err = "harness exit %d: %s" % (p.returncode, (p.stderr or "")[-600:])
    return bundle, recs, err, time.time() - t0


def _parse(out):
    recs = []
    for line in out.splitlines():
        line = line.strip()
        if line.startswith("{"):
            try:
                recs.append(json.loads(line))
            except Exception:
                pass
    return recs


def run_all(binp, bundles, timeout, progress=None, deadline=None):
    results = []
    with cf.ThreadPoolExecutor(max_workers=NPROC) as ex:
        futs = [ex.submit(run_bundle, binp, b, timeout, deadline) for b in bundles]
        for i, f in enumerate(cf.as_completed(futs)):
            results.append(f.result())
            if progress:
                progress(i + 1, len(futs))
    return results


# ---------------------------------------------------------------- known findings
def load_known(prop):
    """lines: 'finding: property=C08 key=<regex> <text>'  /  'fixed: property=.. <commit> <text>'"""
    path = os.path.join(VERIF, "known_findings.txt")
    out = []
    if not os.path.exists(path):
        return out
    for line in open(path):
        line = line.strip()
        m = re.match(r"finding:\s+property=(\S+)\s+key=(\S+)\s+(.*)", line)
        if m and m.group(1) == prop:
            out.append(dict(key=m.group(2), text=m.group(3)))
    return out


def violation_key(case, v):
    """role-based key: label / engine-kind / diagram / family flags (no seeds, no values)"""
    fam = []
    for f in ("long_arcs", "depth_free", "bonus", "setnext", "perm", "statewise"):
        if case.get(f, "0") not in ("0", ""):
            fam.append(f)
    parts = [v["label"], case.get("kind", "?"), case.get("dd", "-"), case.get("comp", case.get("solver", "-")), "+".join(fam) or "plain"]
    for extra in ("fringe", "cache", "threads", "threads_after"):
        if extra in case:
            parts.append("%s=%s" % (extra, case[extra]))
    return "/".join(parts)


# ---------------------------------------------------------------- replay
def replay_native(case, inputs, label, props):
    """re-run the same sub-case concretely on the native build (unmodified /repo/ddo, Cost = isize).
    returns (reproduced: bool, detail)"""
    try:
        if case.get("kind") in ("par", "cacheconc", "domconc"):
            # schedules cannot be forced onto real threads: parallel counterexamples are replayed,
            # concretely (no solver, no symbolic values), on the scheduled build
            nat, _ = build.ensure_symx(sched=True)
        else:
            nat, _ = build.ensure_native()
    except build.BuildError as e:
        return None, "replay build failed: %s" % e
    b = dict(case)
    b["concrete"] = "1"
    b["inputs"] = ",".join("%s:%d" % (k, v) for k, v in inputs.items())
    b.pop("max_paths", None)
    _, recs, err, _ = run_bundle(nat, b, 120)
    if not recs:
        return None, "native replay produced no report (%s)" % err
    for r in recs:
        for v in r["report"]["violations"]:
            if v["label"] == label:
                return True, v["detail"]
    labs = sorted({v["label"] for r in recs for v in r["report"]["violations"]})
    return False, "native run does not violate %s (violations seen: %s)" % (label, labs)


def write_replay(prop, case, v):
    os.makedirs(os.path.join(VERIF, "replays"), exist_ok=True)
    body = dict(property=prop, label=v["label"], kind=v["kind"], detail=v["detail"], case=case, inputs=v["inputs"])
    h = hashlib.sha256(json.dumps(body, sort_keys=True).encode()).hexdigest()[:12]
    path = os.path.join(VERIF, "replays", "%s-%s.json" % (prop, h))
    json.dump(body, open(path, "w"), indent=1, sort_keys=True)
    return path


def replay_file(path):
    body = json.load(open(path))
    ok, detail = replay_native(body["case"], body["inputs"], body["label"], None)
    return body, ok, detail


# ---------------------------------------------------------------- aggregation
class Agg:
    def __init__(self, prop, prefixes):
        self.prop = prop
        self.prefixes = prefixes  # label prefixes that belong to this property
        self.tot = dict(paths=0, branches=0, queries=0, sat=0, unsat=0, unknown=0, obligations=0, discharged_solver=0, discharged_concrete=0, divergences=0, free_alts=0, selfcheck_terms=0)
        self.solver_secs = 0.0
        self.subcases = 0
        self.decided = 0
        self.incomplete = []
        self.notes = {}
        self.labels = {}
        self.violations = []  # (case, violation)
        self.machinery = []  # refused / solver errors / harness errors
        self.samples = []
        self.nontrivial = set()
        self.prop_obligations = 0
        self.diff_candidates = []  # (case, inputs of one explored path) for differential validation
        self.skipped = 0  # bundles not started because the tier's wall-clock budget was spent

    def mine(self, label):
        # un-labelled panics of the code under test (index out of bounds, unwrap on None,
        # arithmetic overflow ...) make the observable the property talks about undefined
        return label == "panic" or any(label.startswith(p) for p in self.prefixes)

    def add(self, bundle, recs, err, secs, nontrivial_rule):
        if err and err.startswith("skipped"):
            self.skipped += 1
            return
        if err:
            # a bundle-level timeout only loses the sub-cases that did not report
            self.machinery.append(dict(bundle={k: v for k, v in bundle.items()}, error=err)) if not err.startswith("timeout") else self.incomplete.append(dict(bundle=bundle, reason=err))
        for rec in recs:
            r = rec["report"]
            case = rec["case"]
            self.subcases += 1
            for k in self.tot:
                self.tot[k] += r.get(k, 0)
            self.solver_secs += r["solver_secs"]
            if r["complete"]:
                self.decided += 1
            else:
                self.incomplete.append(dict(case=case, paths=r["paths"], reason="budget" if not r["refused"] and not r["solver_errors"] else "refused/solver"))
            for k, v in r["notes"].items():
                self.notes[k] = self.notes.get(k, 0) + v
            for k, v in r["labels"].items():
                self.labels[k] = self.labels.get(k, 0) + v
                if self.mine(k):
                    self.prop_obligations += v
            if r["refused"] or r["solver_errors"] or r["divergences"]:
                self.machinery.append(dict(case=case, refused=r["refused"], solver_errors=r["solver_errors"], divergences=r["divergences"]))
            for v in r["violations"]:
                if self.mine(v["label"]):
                    self.violations.append((case, v))
            if r["complete"] and nontrivial_rule(r):
                self.nontrivial.add(json.dumps(case, sort_keys=True))
            if r["witnesses"] and r.get("observed", 0) > 0 and case.get("kind") in ("dd", "solve", "fringe", "cache", "dominance", "domorder", "knap") and len(self.diff_candidates) < 400:
                self.diff_candidates.append((case, r["witnesses"][-1]))
            if len(self.samples) < 4 and r["paths"] > 1:
                self.samples.append(dict(case=case, structure=rec.get("shape", ""), symbolic_inputs=r["inputs_decl"][:40], paths=r["paths"], queries=r["queries"], obligations=r["obligations"], complete=r["complete"], one_path_model=(r["witnesses"] or [{}])[0], obligation_labels=r["labels"]))


def differential(symx_bin, candidates, n):
    """9.1 self-validation: the shadow build (all inputs concrete) and the native build (unmodified crate,
    Cost = isize) must observe exactly the same values / solutions / cut-sets / DOT text on the same inputs.
    returns (validated, mismatches)"""
    if not candidates or n <= 0:
        return 0, []
    try:
        nat, _ = build.ensure_native()
    except build.BuildError as e:
        return 0, [dict(error="native build failed: %s" % e)]
    step = max(1, len(candidates) // n)
    picked = candidates[::step][:n]

    def one(cw):
        case, wit = cw
        b = dict(case)
        b["concrete"] = "1"
        b["inputs"] = ",".join("%s:%d" % (k, v) for k, v in wit.items())
        b.pop("max_paths", None)
        _, r1, e1, _ = run_bundle(symx_bin, b, 120)
        _, r2, e2, _ = run_bundle(nat, b, 120)
        if not r1 or not r2:
            return dict(case=case, error="no report (%s / %s)" % (e1, e2))
        d1 = [(x["report"]["digest"], x["report"]["observed"]) for x in r1]
        d2 = [(x["report"]["digest"], x["report"]["observed"]) for x in r2]
        if d1 != d2:
            return dict(case=case, inputs=wit, shadow=d1, native=d2)
        return None

    bad = []
    ok = 0
    with cf.ThreadPoolExecutor(max_workers=NPROC) as ex:
        for res in ex.map(one, picked):
            if res is None:
                ok += 1
            else:
                bad.append(res)
    return ok, bad
